"""C01 - compiled programs compute what the card language defines."""
from cardsem import *


def main(tier, seed):
    run = Run("C01", tier, seed)
    thorough = tier == "thorough"
    d = workdir("C01")
    files = []
    # (a) bounded grammars enumerated completely by TLC
    for shard in ("ops", "ctl"):
        progs = tlc_programs(run, shard, "C01-gen-" + shard)
        out = run_programs(progs, "tlc-" + shard, os.path.join(d, "tlc-%s.ndjson" % shard))
        files += split_file(out, 12, d, "tlc-" + shard)
    # (b) seeded random well-scoped programs from the harness generator
    n = 100 if not thorough else 1500
    for prof in ("basic", "calls", "tables", "coerce", "deep", "globals", "closures"):
        f = os.path.join(d, prof + ".ndjson")
        drive_programs(prof, seed, n, f)
        files += split_file(f, 6 if not thorough else 12, d, prof)
    # (c) programs that exercise the known findings (kept separate so that they are attributable)
    for prof in ("arrays", "whiledecl"):
        f = os.path.join(d, prof + ".ndjson")
        drive_programs(prof, seed, 60 if not thorough else 300, f)
        files += split_file(f, 2, d, prof)
    # (d) deterministic probes, one per known finding
    import probes
    names = sorted(probes.C01_PROBES)
    out = run_programs([probes.C01_PROBES[n] for n in names], "probe", os.path.join(d, "probes.ndjson"))
    files.append(out)
    note_program_stats(run, files)
    mism, stats = validate_programs(run, files, "C01", nproc=14, timeout=2400)
    report_mismatches(run, mism)
    run.sample(dict(program=json.loads(open(files[-3]).readline())["prog"]["fns"][0], note="main of one generated program"))
    run.notes["unspecified_runs"] = stats.get("unspec", 0)
    run.assumptions += ["well-scoped programs only (DESIGN section 4); integers stay below 2^28, inexact reals compare by kind",
                        "runs whose reference outcome is `unspec` (left the specified fragment) are accepted and counted",
                        "error locations are compared by C15, not here"]
    return run.finish("model_checking",
                      "programs = complete TLC-enumerated grammars (operator x operand-kind table: 4009; control nestings in a callee: 330) "
                      "plus seeded generator profiles; each is compiled and run by the crate and executed step by step by the TLA+ "
                      "reference machine under TLC, which compares final globals, host-call log and outcome; distinct = distinct program texts")
