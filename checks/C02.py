"""C02 - garbage collection never invalidates a value the program can still use."""
from cardsem import *


def main(tier, seed):
    run = Run("C02", tier, seed)
    thorough = tier == "thorough"
    # 1. the rooting discipline as an abstract heap machine: with all six root categories nothing reachable is ever
    #    freed, whatever the interleaving of instruction steps and collections; with the categories the pinned code
    #    used (stack, globals, guards only) TLC must find the counterexample - a model that cannot fail proves nothing
    full = '{"stack", "globals", "frames", "upvals", "guards", "inflight"}'
    mc(run, "VmHeap.tla", dict(Objs="{o1, o2, o3}", RootSets=full), ["NoDangling"], "C02-VmHeap", workers=8,
       extra="PROPERTIES CollectFreesOnlyGarbage CollectFreesAllGarbage\n")
    dd = workdir("cfg-C02-sens")
    cfg = os.path.join(dd, "sens.cfg")
    write_cfg(cfg, dict(Objs="{o1, o2, o3}", RootSets='{"stack", "globals", "guards"}'), "Spec", ["NoDangling"])
    r = tlc(os.path.join(SPEC, "VmHeap.tla"), cfg, workers=4, name="C02-sens")
    if r["ok"] or not any("NoDangling" in e for e in r["errors"]):
        raise ToolError("VmHeap is not sensitive to a missing root category")
    run.notes["model_sensitivity"] = "NoDangling is violated (as it must be) when frames/upvals/inflight are not roots"
    asan = build_harness_asan()
    run.notes["freed_memory_detector"] = "AddressSanitizer build of the harness" if asan else "none (nightly ASan build unavailable): crashes only"
    d = workdir("C02")
    files = []
    n = 16 if not thorough else 250
    k = 3 if not thorough else 10
    crashes = 0
    profs = ["alloc", "closures", "tables", "std", "host"]

    def job(i, prof):
        def go():
            f = os.path.join(d, prof + ".ndjson")

            def on_crash(info, kind, rc, prof=prof):
                o = info["op"]
                return {"id": info["case"], "profile": "%s/gc:%s" % (prof, o.get("schedule")), "prog": o["prog"], "cmp_loc": False,
                        "schedule": o.get("schedule"), "at": o.get("at"),
                        "obs": {"st": kind, "kind": str(rc)[:600], "globals": {}, "log": [], "trace": []}}
            drive_trace(["gc-drive", "--profile", prof, "--seed", seed * 100 + i, "--n", n, "--schedules", k], f, n,
                        timeout=1800, on_crash=on_crash, binary=asan, max_crashes=6)
            return f
        return go
    outs = parallel([job(i, p) for i, p in enumerate(profs)], nproc=5)
    for prof, f in zip(profs, outs):
        files += split_file(f, 3, d, prof)
    # the hand-written closure and table idioms (C06 / C07) under the same collection schedules
    import probes
    # (without the idiom that exercises the known C06 finding: its outcome is wrong under every schedule, which is not C02's business)
    idioms = [probes.C06_IDIOMS[k] for k in sorted(probes.C06_IDIOMS) if k != "captured-loop-var-with-stray-value"] + \
             [probes.C07_IDIOMS[k] for k in sorted(probes.C07_IDIOMS)]
    icases = os.path.join(d, "idioms.cases")
    with open(icases, "w") as fh:
        for i, pr in enumerate(idioms):
            fh.write(json.dumps({"id": i, "prog": pr}) + "\n")
    fi = os.path.join(d, "idioms.ndjson")

    def on_crash_i(info, kind, rc):
        o = info["op"]
        return {"id": info["case"], "profile": "idioms/gc:%s" % o.get("schedule"), "prog": o["prog"], "cmp_loc": False,
                "schedule": o.get("schedule"), "at": o.get("at"),
                "obs": {"st": kind, "kind": str(rc)[:600], "globals": {}, "log": [], "trace": []}}
    drive_trace(["gc-drive", "--profile", "idioms", "--cases", icases, "--seed", seed, "--n", len(idioms), "--schedules", k + 2], fi, len(idioms),
                timeout=1800, on_crash=on_crash_i, binary=asan, max_crashes=6)
    files += split_file(fi, 3, d, "idioms")
    run.notes["idioms_under_collection_schedules"] = len(idioms)
    # 3. the Collect action bound to the real collector: heap snapshots at the start of collections (root categories +
    #    object graph) and one event per freed object, validated by TLC: nothing reachable is freed, all garbage is freed
    heap_trace(run, ["alloc", "closures", "std", "host"], n, 10 if not thorough else 30, seed, "C02-heap",
               lambda why: "still reach" in why or "free outside" in why)
    note_program_stats(run, files)
    sched = {}
    for tf in files:
        for l in open(tf):
            r = json.loads(l)
            sched[r.get("schedule")] = sched.get(r.get("schedule"), 0) + 1
    run.notes["runs_per_schedule"] = sched
    mism, stats = validate_programs(run, files, "C02", nproc=14, timeout=2400)
    for rec, m in mism:
        summ = diff_summary(m)
        got = m["got"]
        kind = "outcome-depends-on-gc-placement"
        site = rec.get("schedule") or "?"
        if got["st"] in ("abort", "hang", "panic"):
            kind = "freed-memory-access" if "asan" in str(got["kind"]) else got["st"]
            mm = re.search(r"\| ([^|]*?) /repo", str(got["kind"]))
            site = (mm.group(1).strip() if mm else str(got["kind"]))[:80]
        run.violation(kind, site, dict(id=rec["id"], profile=rec.get("profile"), schedule=rec.get("schedule"), at=rec.get("at"),
                                       diff=summ[:4], got_outcome=[got["st"], str(got["kind"])[:500]]),
                      case=dict(record=rec, expected=m["expected"]))
    run.sample(dict(schedules=sched))
    run.assumptions += ["collections are forced through the verif-hooks allocator schedule (none / at every allocation / seeded random subsets) in addition "
                        "to the natural threshold",
                        "host functions written by embedders are outside the model; the natives shipped with the crate and the harness natives are covered",
                        "reads of freed memory are made visible by an AddressSanitizer build of the harness when the nightly toolchain can build it"]
    return run.finish("model_checking",
                      "runs = generated programs (allocation-heavy loops, closures, tables, library callbacks, host re-entry) x GC schedules; every run is "
                      "judged by the collector-free TLA+ reference machine (same observable outcome for every placement of collections) and executed "
                      "under AddressSanitizer (no access to freed memory)")
