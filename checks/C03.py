"""C03 - the instruction budget bounds every run, so every run terminates."""
from common import *


def main(tier, seed):
    run = Run("C03", tier, seed)
    thorough = tier == "thorough"
    # 1. the budget discipline as a state machine: invariants + action property for all interleavings of
    #    execution, re-entry and run end with small budgets
    mc(run, "VmBudget.tla", dict(MaxBudget="5" if not thorough else "8", MaxDepth="3"), ["BudgetRespected", "ExecBounded"], "C03-MC",
       spec="Spec")
    # 2. impl -> spec: per program a reference run (defines k and the observation), then swept budgets
    d = workdir("C03-traces")
    files = []
    n = 40 if not thorough else 300
    sweep = 12 if not thorough else 40
    # ("hosttry": host functions that handle the failure of the function they called back and carry on)
    for i, prof in enumerate(["std", "host", "basic", "closures", "deep", "hosttry"]):
        f = os.path.join(d, "%s.ndjson" % prof)
        drive_trace(["budget-drive", "--profile", prof, "--seed", seed * 100 + i, "--n", n, "--sweep", sweep], f, n, timeout=1200)
        files.append(f)
    stats = dict(runs=0, nested_exec_events=0, reenters=0, timeouts=0, programs=0, instructions=0)
    for f in files:
        for l in open(f):
            r = json.loads(l)
            if r["e"] == "RunEnd":
                stats["runs"] += 1
                stats["timeouts"] += r["out"] == "Timeout"
            elif r["e"] == "Exec":
                stats["instructions"] += r["c"]
                stats["nested_exec_events"] += r["d"] > 1
            elif r["e"] == "Reenter":
                stats["reenters"] += 1
            elif r["e"] == "Reset":
                stats["programs"] += 1
    run.notes["budget_sweep"] = stats
    if stats["nested_exec_events"] < 50 or stats["timeouts"] < 50:
        run.thin_corpus("the corpus does not exercise nested execution / timeouts enough: %s" % stats)
    validate_traces(run, "VmBudgetTrace.tla", dict(MaxBudget="1", MaxDepth="1"), ["Inv"], files, "budget-trace", timeout=1800,
                    site_of=lambda m: str(m.get("event", {}).get("e")))
    run.evaluations += stats["runs"]
    for f in files:
        k = 0
        for l in open(f):
            r = json.loads(l)
            if r["e"] == "RunStart":
                k += 1
                run.distinct.add((f, k))
    run.sample(dict(trace_excerpt=first_records(files[0], 8)))
    run.assumptions += ["instruction = one dispatch of the interpreter loop at any nesting depth (hook event Instr emitted at the loop head)",
                        "whether a program needing exactly N instructions completes under budget N is not specified (one instruction of slack)",
                        "a Timeout raised inside a callback may surface wrapped in the host task's failure"]
    return run.finish("model_checking",
                      "per generated program: one reference run with an unlimited budget and 12 (thorough 40) runs with budgets around 0, k/2, k, 2k; "
                      "the hook events (dispatches per nesting depth, re-entries, run end) are validated by TLC against VmBudget: never more than N "
                      "dispatches per run over all depths, Timeout only when exhausted, completion with the reference observation for every N > k, "
                      "Timeout for every N < k")
