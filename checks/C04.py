"""C04 - compiling and running are total: errors are values, never crashes or hangs."""
from common import *


def main(tier, seed):
    run = Run("C04", tier, seed)
    thorough = tier == "thorough"
    # 1. the life of one program as a state machine: with deadlock checking ON every non-final state has a successor for every
    #    family, and every behaviour reaches `done` (liveness under weak fairness)
    d0 = workdir("cfg-C04-MC")
    cfg = os.path.join(d0, "mc.cfg")
    open(cfg, "w").write("SPECIFICATION Spec\nINVARIANT TypeOK\nPROPERTY Terminates\n")
    r = tlc(os.path.join(SPEC, "VmTotal.tla"), cfg, workers=2, name="C04-MC", coverage=True)
    require_tlc_ok(r, "VmTotal model checking")
    run.add_tlc(r)
    # 2. impl -> spec: hostile inputs under crash isolation
    d = workdir("C04-traces")
    n = 72 if not thorough else 720
    nfiles = 6 if not thorough else 12

    def on_crash(info, kind, rc):
        o = info["op"]
        return {"e": kind.capitalize(), "fam": o.get("fam"), "case": o.get("case"), "sub": o.get("sub"), "rc": str(rc)[:300]}

    def job(i):
        def go():
            f = os.path.join(d, "total%d.ndjson" % i)
            drive_trace(["total-drive", "--seed", seed * 100 + i, "--n", n], f, n, timeout=2400, on_crash=on_crash, max_crashes=12)
            return f
        return go
    files = parallel([job(i) for i in range(nfiles)], nproc=6)
    fam = {}
    outcomes = {}
    for f in files:
        cur = None
        for l in open(f):
            r = json.loads(l)
            if r["e"] == "Reset":
                cur = r["fam"]
                fam[cur] = fam.get(cur, 0) + 1
            elif r["e"] in ("Compile", "Run"):
                k = "%s:%s:%s" % (cur, r["e"], r["res"])
                outcomes[k] = outcomes.get(k, 0) + 1
    run.notes["cases_per_family"] = fam
    run.notes["outcomes"] = dict(sorted(outcomes.items(), key=lambda x: -x[1])[:40])
    if len(fam) < 17:
        raise ToolError("not every hostile family was exercised: %s" % sorted(fam))
    validate_traces(run, "VmTotalTrace.tla", {}, ["Inv"], files, "total-trace", timeout=1800,
                    site_of=lambda m: str(m.get("event", {}).get("fam") or m.get("state", {}).get("fam")))
    # name the violation kind after what happened
    for v in run.viol:
        ev = v["detail"].get("event", {})
        if ev.get("e") in ("Panic", "Abort", "Hang"):
            v["kind"] = ev["e"].lower()
        elif ev.get("e") in ("Compile", "Run"):
            v["kind"] = "unexpected-result"
    run.evaluations += sum(fam.values())
    for k in fam:
        for i in range(fam[k]):
            run.distinct.add((k, i))
    # valid programs that combine features (closures through host callbacks and library natives, tables shared by reference,
    # the probes of the known findings): they must end in Ok or an error value as well
    import probes
    from cardsem import run_programs
    named = [("probe:" + k, probes.C01_PROBES[k]) for k in sorted(probes.C01_PROBES)] + \
            [("idiom:" + k, probes.C06_IDIOMS[k]) for k in sorted(probes.C06_IDIOMS)] + \
            [("idiom:" + k, probes.C07_IDIOMS[k]) for k in sorted(probes.C07_IDIOMS)]
    out = run_programs([p for _, p in named], "idioms", os.path.join(workdir("C04-idioms"), "idioms.ndjson"))
    nid = 0
    for (name, _), l in zip(named, open(out)):
        rec = json.loads(l)
        nid += 1
        if rec["obs"].get("st") in ("panic", "abort", "hang", "missing"):
            run.violation(rec["obs"]["st"], name, dict(program=name, detail=str(rec["obs"].get("kind"))[:400]), case=dict(prog=rec["prog"]))
    run.notes["feature_combining_programs_run_for_totality"] = nid
    run.evaluations += nid
    run.sample(dict(trace_excerpt=first_records(files[0], 6)))
    run.assumptions += ["families: one wrong-type operand in a generated program, arbitrary (ill-scoped) card trees for the compiler only, recursion beyond the call "
                        "stack (caps 16/64/256), value-stack exhaustion (sizes 4..256), retained data beyond the memory limit, budgets 0/1/2/7/1000 on an "
                        "endless loop, calling non-functions, i64 extremes, 250..310 locals / parameters, missing natives, nesting as deep as the JSON "
                        "loader admits, self-containing tables, 1..64 globals, empty / odd names",
                        "the harness is built with overflow checks and debug assertions on, so arithmetic or assertion panics that release builds hide are seen",
                        "a hang is a run that makes no progress for 30 s (all runs are bounded by their instruction budget)"]
    return run.finish("model_checking",
                      "hostile inputs of 18 families compiled and run in a crash-isolated driver (panics caught, aborts and hangs turned into records); TLC "
                      "validates every history against VmTotal: only Compile(ok|error kind) and Run(ok|error kind) events exist, every case reaches `done`, "
                      "and for the resource families the error kind is the specified one")
