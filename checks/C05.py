"""C05 - memory limit is enforced and garbage is reclaimed."""
from common import *


def main(tier, seed):
    run = Run("C05", tier, seed)
    thorough = tier == "thorough"
    mc(run, "VmAlloc.tla", dict(Limits="{6, 9}" if not thorough else "{6, 9, 12}", Charges="{1, 2, 3}", Slack="0"),
       ["LedgerSum", "WithinLimit"], "C05-MC")
    d = workdir("C05-traces")
    n = 10 if not thorough else 80
    profs = ["alloc", "tables", "closures", "std"]

    def job(i, prof):
        def go():
            f = os.path.join(d, "%s.ndjson" % prof)
            drive_trace(["alloc-drive", "--profile", prof, "--seed", seed * 100 + i, "--n", n], f, n, timeout=1800)
            return f
        return go
    files = parallel([job(i, p) for i, p in enumerate(profs)], nproc=4)
    stats = dict(runs=0, allocs=0, failed_allocs=0, deallocs=0, collections=0, oom_runs=0, ok_runs=0)
    for f in files:
        for l in open(f):
            r = json.loads(l)
            e = r["e"]
            if e == "Reset":
                stats["runs"] += 1
            elif e == "Alloc":
                stats["allocs"] += 1
                stats["failed_allocs"] += not r["ok"]
            elif e == "Dealloc":
                stats["deallocs"] += 1
            elif e == "GcEnd":
                stats["collections"] += 1
            elif e == "RunEnd":
                stats["oom_runs"] += r["out"] == "OutOfMemory"
                stats["ok_runs"] += r["out"] == "Ok"
    run.notes["allocator_events"] = stats
    if stats["collections"] < 20 or stats["allocs"] < 1000:
        run.thin_corpus("the corpus does not exercise the allocator enough: %s" % stats)
    validate_traces(run, "VmAllocTrace.tla", dict(Limits="{1}", Charges="{1}", Slack="2048"), ["Inv"], files, "alloc-trace",
                    timeout=2400, site_of=lambda m: "%s(ok=%s)" % (m.get("event", {}).get("e"), m.get("event", {}).get("ok")))
    # the collector's result, seen from outside: at the end of every collection nothing unreachable is left, and once a run
    # is over (no guard alive) no object still counts as guarded - such an object could never be reclaimed again
    heap_trace(run, ["alloc", "std", "host", "closures"], 12 if not thorough else 80, 6 if not thorough else 20, seed, "C05-heap",
               lambda why: "survived" in why or "guarded" in why)
    run.evaluations += stats["runs"]
    for i in range(stats["runs"]):
        run.distinct.add(i)
    run.sample(dict(trace_excerpt=first_records(files[0], 6)))
    run.assumptions += ["every program runs under the limits 3000, 6000, 12000, 40000 and 409600 bytes; its live data is a handful of globals while its loops "
                        "allocate garbage, so none of these runs may end in OutOfMemory unless the reachable data really does not fit",
                        "`live` is computed by hook code that does not share code with the collector; an operation may hold up to 2048 bytes that it "
                        "has allocated but not linked yet (Slack)",
                        "memory obtained from the global allocator (key vectors of tables, upvalue vectors of closures) is invisible to the account"]
    return run.finish("model_checking",
                      "allocator and collector hook events of generated programs under five memory limits, validated by TLC against VmAlloc: the "
                      "reported counter equals the shadow ledger after every event, never exceeds the limit, is 0 after clear, nothing unreachable "
                      "survives a collection, and a refused request is legitimate only if reachable + request does not fit")
