"""C06 - closures capture variables by reference with correct identity and lifetime."""
from cardsem import *


def main(tier, seed):
    run = Run("C06", tier, seed)
    thorough = tier == "thorough"
    d = workdir("C06")
    files = []
    import probes
    names = sorted(probes.C06_IDIOMS)
    out = run_programs([probes.C06_IDIOMS[n] for n in names], "idiom", os.path.join(d, "idioms.ndjson"))
    # give the idioms their names as ids for readable reports
    recs = [json.loads(l) for l in open(out)]
    with open(out, "w") as f:
        for n, r in zip(names, recs):
            r["profile"] = "idiom:" + n
            f.write(json.dumps(r) + "\n")
    files.append(out)
    n = 400 if not thorough else 4000
    f = os.path.join(d, "closures.ndjson")
    drive_programs("closures", seed + 7, n, f)
    files += split_file(f, 12, d, "closures")
    note_program_stats(run, files)
    mism, stats = validate_programs(run, files, "C06", nproc=14, timeout=2400)
    report_mismatches(run, mism)
    # closures that outlive the run that created them: created over locals of `main`, stored in globals, called by later runs
    # on the same VM (VmLife.Persist)
    pf = os.path.join(d, "persist.ndjson")
    cv(["persist-drive", "--out", pf])
    validate_traces(run, "VmLifeTrace.tla", dict(Progs='{"p"}'), ["Inv"], [pf], "C06-persist", timeout=600,
                    site_of=lambda m: str(m.get("event", {}).get("what")))
    run.notes["closures_called_in_a_later_run"] = sum(1 for l in open(pf) if '"Persist"' in l)
    run.sample(dict(idioms=names))
    run.notes["unspecified_runs"] = stats.get("unspec", 0)
    run.assumptions += ["the reference machine captures variable cells (never stack slots); agreement is evidence about the upvalue mechanism"]
    return run.finish("model_checking",
                      "programs = hand-written closure idioms (sharing while alive / after exit, per-iteration capture, nesting, shadowing, "
                      "same card position in two modules, callbacks) plus the closure-heavy generator profile; judged by the TLA+ reference "
                      "machine; distinct = distinct program texts")
