"""C07 - tables are insertion-ordered maps keyed by value."""
from cardsem import *

INV = ["DistinctKeys", "SetGet", "MissingIsNil", "AppendRule", "PopRule", "Frame", "RefusedChangesNothing"]


def main(tier, seed):
    run = Run("C07", tier, seed)
    thorough = tier == "thorough"
    small = dict(KeySet="<- KeysSmall", ValSet="<- ValsSmall", NTabs="1", MaxLen="3" if not thorough else "4")
    med = dict(KeySet="<- KeysMed", ValSet="<- ValsMed", NTabs="2", MaxLen="12")
    # 1. model checking of the table laws
    mc(run, "TableSpec.tla", small, INV, "C07-TableMC", workers=8)
    # 2. spec -> impl through the host API (CaoLangTable)
    cases = gen_cases(run, "TableSpecGen.tla", dict(small, SimDepth="0", PreferOk="TRUE"), "C07-Fan", workers=8)
    replay(run, "table-replay", cases, "table-fan")
    cases = gen_cases(run, "TableSpecGen.tla", dict(med, SimDepth="50", PreferOk="TRUE"), "C07-Sim",
                      simulate=6 if not thorough else 60, depth=51, seed=seed)
    replay(run, "table-replay", cases, "table-sim")
    # the table's index is a CaoHashMap of capacity 8: one case per slot layout of the slot-level model (see C12), replayed on a
    # real table with integer keys whose real hashes have the home slots the model chose
    oa = dict(KeySeq="<-KS3" if not thorough else "<-KS4", Kind='"hm"', Cap0s="{8}", Mod="8", ResSet="{0, 1, 2, 3, 4, 5, 6, 7}", MaxV="0")
    cases = gen_cases(run, "OpenAddrGen.tla", oa, "C07-OpenAddrFan", workers=8, timeout=3600)
    for c in cases:
        c["kind"] = "tab"
    run.notes["slot_layouts_replayed"] = len(cases)
    replay(run, "maps-replay", cases, "table-slots")
    # 3. impl -> spec: long random histories (20 keys incl. equal-by-content strings, reals, nil, negative ints)
    d = workdir("C07-traces")
    files = []
    nfiles = 4 if not thorough else 12
    for k in range(nfiles):
        f = os.path.join(d, "t%d.ndjson" % k)
        ncases = 12 if not thorough else 40
        drive_trace(["table-drive", "--seed", seed * 1000 + k, "--cases", ncases, "--len", [150, 400, 1000][k % 3],
                     "--ntabs", 1 + k % 2], f, ncases)
        files.append(f)
    validate_traces(run, "TableSpecTrace.tla", dict(KeySet="<- KeysSmall", ValSet="<- ValsSmall", NTabs="2", MaxLen="1000000"),
                    ["Inv"], files, "table-trace", timeout=1200)
    run.sample(dict(direction="impl->spec", records=first_records(files[0], 3)))
    # 4. script level: the table cards and sharing by reference (variables, fields, captured variables, parameters, globals),
    #    judged by the CardSem reference machine, whose tables live in a heap and are referred to by identity
    import probes
    d2 = workdir("C07-scripts")
    names = sorted(probes.C07_IDIOMS)
    out = run_programs([probes.C07_IDIOMS[n] for n in names], "idiom", os.path.join(d2, "idioms.ndjson"))
    recs = [json.loads(l) for l in open(out)]
    with open(out, "w") as f:
        for n, r in zip(names, recs):
            r["profile"] = "idiom:" + n
            f.write(json.dumps(r) + "\n")
    sfiles = [out]
    f2 = os.path.join(d2, "tables.ndjson")
    drive_programs("tables", seed + 23, 150 if not thorough else 1500, f2)
    sfiles += split_file(f2, 8, d2, "tables")
    note_program_stats(run, sfiles)
    mism, stats = validate_programs(run, sfiles, "C07-scripts", nproc=12, timeout=2400)
    report_mismatches(run, mism)
    run.assumptions += ["real keys NaN / +-0 and table-valued keys are not generated; row index out of range is not generated",
                        "every use of a string key creates a fresh string object, so lookups succeed only by content"]
    return run.finish("model_checking",
                      "cases = TLC-generated (path to each distinct table state + every enabled call) or TLC-simulated behaviours "
                      "replayed through the host API, plus harness-driven random histories validated by TLC; "
                      "distinct = distinct (tables, operation path)")
