"""C08 - a call invokes exactly the function that name resolution designates."""
from cardsem import *
import random


def nameres_cases(run, shard, label, invariants):
    d = workdir("cfg-" + label)
    cfg = os.path.join(d, "nr.cfg")
    open(cfg, "w").write('CONSTANT Shard = "%s"\nSPECIFICATION Spec\nINVARIANTS Emit %s\nCHECK_DEADLOCK FALSE\n' % (shard, " ".join(invariants)))
    cases = []
    r = tlc(os.path.join(SPEC, "NameRes.tla"), cfg, workers=4, name=label,
            on_print=lambda pr: cases.append(pr[1]) if pr[0] == "CASE" else None, timeout=900)
    require_tlc_ok(r, "NameRes shard " + shard)
    run.add_tlc(r)
    return cases


def main(tier, seed):
    run = Run("C08", tier, seed)
    thorough = tier == "thorough"
    d = workdir("C08")
    cases = nameres_cases(run, "resolve", "C08-resolve", ["Sound", "AbsoluteWins", "AtMostOneTarget"])
    total = len(cases)
    if not thorough:
        rnd = random.Random(seed)
        cases = rnd.sample(cases, 9000)
    cases += nameres_cases(run, "flaws", "C08-flaws", [])
    # imports of the enclosing module do not reach into a nested module (6 families x 3 sites x 9 names x 11 parent imports)
    cases += nameres_cases(run, "inherit", "C08-inherit", [])
    path = os.path.join(d, "cases.ndjson")
    with open(path, "w") as f:
        for c in cases:
            f.write(json.dumps(c) + "\n")
    res = run_cases(["nameres-run"], path, len(cases), idle_timeout=15.0)
    outcomes = {}
    for c, r in zip(cases, res):
        run.evaluations += 1
        run.distinct.add(digest(c["conf"]))
        st = r.get("status")
        if st == "ok":
            o = r["outcome"]
            k = "run" if "run" in o else "cerr:" + o.get("cerr", "?")
            outcomes[k] = outcomes.get(k, 0) + 1
            continue
        det = r.get("detail", {})
        if st in ("panic", "abort", "hang", "missing"):
            det = dict(kind=st, site=c["conf"].get("flaw"), msg=det, conf=c["conf"], expected=c["expected"])
        flaw = c["conf"].get("flaw", "none")
        feature = flaw if flaw != "none" else classify(c["conf"], det)
        det["feature"] = feature
        run.violation(det.get("kind", st), feature, det, case=c)
    run.notes["configurations_in_model"] = total
    run.notes["outcomes"] = outcomes
    run.sample(cases[0])
    run.sample(cases[-1])
    # parameter binding, caller-local isolation and return values are CardSem call rules
    files = []
    f = os.path.join(d, "calls.ndjson")
    drive_programs("calls", seed + 17, 150 if not thorough else 1500, f)
    files += split_file(f, 6, d, "calls")
    progs = tlc_programs(run, "ctl", "C08-gen-ctl")
    out = run_programs(progs, "tlc-ctl", os.path.join(d, "tlc-ctl.ndjson"))
    files += split_file(out, 6, d, "tlc-ctl")
    note_program_stats(run, files)
    mism, stats = validate_programs(run, files, "C08", nproc=12, timeout=2400)
    report_mismatches(run, mism)
    # the callee cannot see or disturb the caller's local variables: at the level of the interpreter's instructions (VmData.tla, every
    # executed instruction validated with the contents of the value stack) no instruction changes a value below the frame of the
    # function that executes it, except the assignment of a captured variable; other deviations from the data model are recorded only
    model_check_vmdata(run, 2 if not thorough else 3)
    instr_conformance(run, ["calls", "deep", "closures"], 12 if not thorough else 120, seed, "C08-data",
                      lambda m: "below the frame" in str(m.get("why")), max_events=1500, values=True)
    run.assumptions += ["module tree root{a{b}, c}; function families, call sites, call names and import sets (<= 2 imports out of 17 incl. super chains, "
                        "malformed and too-deep ones) enumerated by TLC",
                        "a module import that climbs with `super` may be refused at compile time (the property only says what may compile)",
                        "which compile error variant is reported is not compared"]
    return run.finish("model_checking",
                      "cases = module-tree configurations enumerated by TLC from NameRes.tla with the designated target (or refusal) computed by the "
                      "specification; each is built as a real Module whose functions tag themselves, compiled and run; plus CardSem-judged programs for "
                      "parameter binding / caller isolation / return values; distinct = distinct configurations",
                      extra=dict(exhaustive=thorough))


def classify(conf, det):
    imps = conf.get("imports", [])
    if "panic" in json.dumps(det.get("kind", "")):
        return "panic"

    def malformed(i):
        if len(i) < 2 or "" in i or i[-1] == "super":
            return True
        seen_other = False
        for s in i:
            if s != "super":
                seen_other = True
            elif seen_other:
                return True
        return False
    if any(malformed(i) for i in imps):
        return "malformed-import"
    if any(sum(1 for s in i if s == "super") > len(conf.get("ns", [])) for i in imps):
        return "too-many-super"
    return "resolution"
