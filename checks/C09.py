"""C09 - standard-library functions meet their contracts."""
from cardsem import *


def main(tier, seed):
    run = Run("C09", tier, seed)
    thorough = tier == "thorough"
    d = workdir("C09")
    files = []
    progs = tlc_programs(run, "std", "C09-gen-std")
    out = run_programs(progs, "tlc-std", os.path.join(d, "tlc-std.ndjson"))
    files += split_file(out, 8, d, "tlc-std")
    n = 300 if not thorough else 3000
    f = os.path.join(d, "std.ndjson")
    drive_programs("std", seed + 11, n, f)
    files += split_file(f, 8, d, "std")
    note_program_stats(run, files)
    mism, stats = validate_programs(run, files, "C09", nproc=14, timeout=2400)
    report_mismatches(run, mism)
    run.notes["unspecified_runs"] = stats.get("unspec", 0)
    calls = run.notes["card_kinds_exercised"].get("Call", 0)
    run.sample(dict(program=progs[len(progs) // 2]["fns"][0]["body"]))
    run.assumptions += ["the library is specified by contract inside the reference machine (folds over the entry sequence, callbacks run "
                        "through the same machine in entry order), not by interpreting the library's own card source",
                        "key-function results are mutually comparable numbers"]
    return run.finish("model_checking",
                      "programs = TLC-enumerated (library function x table family incl. empty/ties/mixed int-real/string keys x callback family, "
                      "plus non-table inputs) and generated programs calling the library with closures; the result, the callback log and the "
                      "input table after the call are compared with the contract semantics of CardSem.tla")
