"""C10 - the compiler emits structurally valid bytecode."""
from cardsem import *


def main(tier, seed):
    run = Run("C10", tier, seed)
    thorough = tier == "thorough"
    d = workdir("C10")
    files = []
    n = 60 if not thorough else 600
    profs = ["basic", "calls", "closures", "tables", "coerce", "deep", "globals", "std", "host", "alloc", "errors", "arrays", "whiledecl"]

    def job(i, prof):
        def go():
            f = os.path.join(d, prof + ".ndjson")
            drive_trace(["bc-drive", "--profile", prof, "--seed", seed * 100 + i, "--n", n], f, n, timeout=900)
            return f
        return go
    files += parallel([job(i, p) for i, p in enumerate(profs)], nproc=8)
    # the TLC-enumerated grammars (every operator / control nesting / library call in every branch position)
    for shard in ("ctl", "std") + (("ops",) if thorough else ()):
        progs = tlc_programs(run, shard, "C10-gen-" + shard)
        cases = os.path.join(d, "tlc-%s.cases" % shard)
        with open(cases, "w") as f:
            for i, p in enumerate(progs):
                f.write(json.dumps({"id": "tlc-%s/%d" % (shard, i), "prog": p}) + "\n")
        res = run_cases(["bc-run"], cases, len(progs), idle_timeout=15.0)
        out = os.path.join(d, "tlc-%s.ndjson" % shard)
        with open(out, "w") as f:
            for r in res:
                if r.get("status") == "ok" and "record" in r:
                    f.write(json.dumps(r["record"]) + "\n")
        files.append(out)
    # split for parallel decoding
    parts = []
    for f in files:
        parts += split_file(f, 4, d, os.path.basename(f).replace(".ndjson", ""))
    cfgd = workdir("cfg-C10")
    cfg = os.path.join(cfgd, "wf.cfg")
    open(cfg, "w").write("SPECIFICATION Spec\nINVARIANTS AllDone InBounds\nCHECK_DEADLOCK FALSE\n")

    def vjob(tf, i):
        def go():
            r = tlc(os.path.join(SPEC, "BytecodeWF.tla"), cfg, workers=1, env={"TRACE": tf}, timeout=2400, heap="3g", stack="1g", deque=True,
                    name="C10-%d" % i)
            require_tlc_ok(r, "BytecodeWF on " + os.path.basename(tf))
            if not any(p[0] == "TRACE-DONE" for p in r["prints"]):
                raise ToolError("BytecodeWF did not finish " + tf)
            return r
        return go
    results = parallel([vjob(tf, i) for i, tf in enumerate(parts)], nproc=14)
    programs = instrs = 0
    for tf, r in zip(parts, results):
        run.states += r["distinct"]
        run.transitions += r["generated"]
        for p in r["prints"]:
            if p[0] == "VERDICT":
                programs += 1
                instrs += p[1]["instructions"]
                run.distinct.add(p[1]["id"])
            elif p[0] == "MISMATCH":
                programs += 1
                run.distinct.add(p[1]["id"])
                kinds = sorted(set(x["kind"] for x in p[1]["problems"]))
                for k in kinds:
                    run.violation(k, str(p[1]["id"]).split("/")[0], dict(id=p[1]["id"], problems=[x for x in p[1]["problems"] if x["kind"] == k][:5]))
    run.traces += programs
    run.evaluations += programs
    run.notes["programs_decoded"] = programs
    run.notes["instructions_decoded"] = instrs
    run.sample(dict(program_id=json.loads(open(parts[0]).readline())["id"], bytes=len(json.loads(open(parts[0]).readline())["bc"])))
    run.assumptions += ["the opcode / operand-width table of BytecodeWF.tla is transcribed from the instruction set and is the specification's own",
                        "every byte of every compiled program is decoded (not only the executed path); programs come from all generator profiles, "
                        "including those that trigger known findings of other properties, and from the TLC-enumerated grammars"]
    # the executed path: every executed address is an instruction start of the front-to-back decoding; the rest of the
    # instruction-level model (VmInstr: stack height and call frames per instruction) is recorded as conformance evidence
    instr_conformance(run, ["calls", "closures", "tables", "deep", "errors"], 30 if tier != "thorough" else 200, seed, "C10-instr",
                      lambda m: "not the start of an instruction" in str(m.get("why")))
    return run.finish("model_checking",
                      "every compiled program of the corpora is walked front to back by the TLA+ decoder state machine under TLC (one state per "
                      "instruction): known opcodes, complete operands, ends with Exit, jump targets and labels on instruction starts, valid "
                      "length-prefixed UTF-8 string operands, local/upvalue/global indices in range, ids<->names bijection, trace keys on instruction "
                      "starts and a trace entry for every fallible instruction")
