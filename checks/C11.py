"""C11 - serialization round-trips preserve programs and values."""
from cardsem import *


def main(tier, seed):
    run = Run("C11", tier, seed)
    thorough = tier == "thorough"
    d = workdir("C11")
    n = 25 if not thorough else 250
    profs = ["basic", "calls", "closures", "tables", "globals", "std", "deep", "coerce"]

    def job(i, prof):
        def go():
            f = os.path.join(d, prof + ".ndjson")
            drive_trace(["transport-drive", "--profile", prof, "--seed", seed * 100 + i, "--n", n], f, n, timeout=1200)
            return f
        return go
    files = parallel([job(i, p) for i, p in enumerate(profs)], nproc=8)
    # runtime values: the universe of ValueLaws.tla (printed by TLC) moved into a second VM
    cfg = os.path.join(d, "universe.cfg")
    open(cfg, "w").write("SPECIFICATION Spec\nINVARIANT Universe\nCHECK_DEADLOCK FALSE\n")
    r = tlc(os.path.join(SPEC, "ValueLawsObs.tla"), cfg, workers=1, name="C11-universe", env={"TRACE": "/dev/null"})
    require_tlc_ok(r, "value universe")
    U = [p[1] for p in r["prints"] if p[0] == "UNIVERSE"][0]
    # plus deeper nested tables
    nest = U[23]
    for _ in range(3):
        nest = {"t": "tab", "i": 0, "s": "", "e": [[{"t": "str", "i": 1, "s": "k", "e": []}, nest], [{"t": "int", "i": 1, "s": "", "e": []}, U[20]]]}
        U.append(nest)
    upath = os.path.join(d, "universe.json")
    json.dump(U, open(upath, "w"))
    vf = os.path.join(d, "values.ndjson")
    cv(["transport-values", upath, "--out", vf])
    files.append(vf)
    cfgd = workdir("cfg-C11")
    cfg = os.path.join(cfgd, "t.cfg")
    open(cfg, "w").write("SPECIFICATION Spec\nINVARIANT AllDone\nCHECK_DEADLOCK FALSE\n")

    def vjob(tf, i):
        def go():
            rr = tlc(os.path.join(SPEC, "Transport.tla"), cfg, workers=1, env={"TRACE": tf}, timeout=1800, heap="3g", stack="1g", deque=True,
                     name="C11-%d" % i)
            require_tlc_ok(rr, "Transport on " + os.path.basename(tf))
            if not any(p[0] == "TRACE-DONE" for p in rr["prints"]):
                raise ToolError("Transport did not finish " + tf)
            return rr
        return go
    results = parallel([vjob(tf, i) for i, tf in enumerate(files)], nproc=10)
    counts = {}
    for tf, rr in zip(files, results):
        run.states += rr["distinct"]
        run.transitions += rr["generated"]
        for p in rr["prints"]:
            if p[0] in ("VERDICT", "MISMATCH"):
                v = p[1]
                key = "%s/%s" % (v["kind"], v["fmt"])
                counts[key] = counts.get(key, 0) + 1
                run.distinct.add(v["id"])
                run.evaluations += 1
                if p[0] == "MISMATCH":
                    run.violation("round-trip-changes-" + ("projection" if v["projection_differs"] else "outcome"), key,
                                  dict(id=v["id"], error=str(v.get("error"))[:300]))
    run.traces += len(files)
    run.notes["round_trips"] = counts
    first = json.loads(open(files[0]).readline())
    run.sample(dict(id=first["id"], kind=first["kind"], fmt=first["fmt"], bytecode_bytes=len(first["before"].get("bytecode", []))))
    run.assumptions += ["modules: JSON and YAML, compared through the programs they compile to (byte for byte, labels, variables, traces); compiled programs: "
                        "JSON, CBOR, bincode, compared by full projection and by running both; values: the 35-term universe of ValueLaws.tla plus nested "
                        "tables, converted to OwnedValue, serialized (JSON, CBOR, bincode), inserted into a second VM, compared deeply with order",
                        "function values are not convertible to owned values and are skipped; the byte-level fidelity of the serde formats themselves is not claimed"]
    return run.finish("exploration",
                      "round trips recorded from the real (de)serializers; TLC steps the Transport state machine (Ser then De per artefact) and demands that "
                      "the projection that comes back equals the one that went out and that the decoded program runs to the same observation; "
                      "distinct = distinct (artefact, format)")
