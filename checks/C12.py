"""C12 - the hash map is a faithful map."""
from maps_common import *


def main(tier, seed):
    return run_map("C12", "hm", tier, seed, caps_mc="{0, 1, 3, 8}", caps_sim="{0, 1, 2, 5, 8, 13}",
                   assumptions=["model keys are bound to real i64 keys chosen from the real hasher so that probe chains collide, wrap around and survive growth",
                                "iteration order, capacity and the value returned by insert are not compared",
                                "Clone cannot report an allocation failure by signature, so clone is never run with a failing allocator"])
