"""C13 - the handle table is a faithful map on non-zero handles."""
from maps_common import *


def main(tier, seed):
    return run_map("C13", "ht", tier, seed, caps_mc="{0, 1, 3, 4, 6, 16}", caps_sim="{0, 1, 2, 3, 5, 7, 8, 12, 16, 20}",
                   assumptions=["handles are produced by Handle::from_u32 from integers chosen so that masked home slots collide and wrap",
                                "handle 0 and Index on an absent handle are not generated",
                                "Index/IndexMut are only implemented for the default allocator; the harness reads through get"])
