"""C14 - the value stack and bounded stack are bounded LIFO stacks."""
from common import *


def main(tier, seed):
    run = Run("C14", tier, seed)
    thorough = tier == "thorough"
    vs_consts = {"Caps": "{1, 2, 3, 4}" if not thorough else "{1, 2, 3, 4, 5}", "Vals": '{"a", "b"}'}
    bs_consts = {"Caps": "{0, 1, 2, 3}" if not thorough else "{0, 1, 2, 3, 4}", "MaxElems": "5" if not thorough else "7"}
    vs_inv = ["TypeOK", "Bounded", "PushLaw", "PushSucceedsWithTwoFree", "Lifo", "PopEmptyNil", "PopNLaw",
              "ReadBeyondNil", "TruncateLaw"]
    bs_inv = ["Bounded", "DropOnce", "NoDuplicates", "PushSucceedsWithRoom", "Lifo"]
    # 1. exhaustive model checking of the laws
    mc(run, "ValueStack.tla", vs_consts, vs_inv, "ValueStackMC")
    mc(run, "BoundedStack.tla", bs_consts, bs_inv, "BoundedStackMC")
    # 2. spec -> impl: every transition of the state graph, then long simulated behaviours; both
    #    settings of PreferOk so that neither admitted outcome of "push with one free slot" is baked in
    nsim = 12 if not thorough else 120
    for pref in ("TRUE", "FALSE"):
        cases = gen_cases(run, "ValueStackGen.tla", dict(vs_consts, SimDepth="0", PreferOk=pref), "ValueStackFan" + pref)
        replay(run, "stacks-replay", cases, "vs-fan-" + pref)
        cases = gen_cases(run, "BoundedStackGen.tla", dict(bs_consts, SimDepth="0", PreferOk=pref), "BoundedStackFan" + pref)
        replay(run, "stacks-replay", cases, "bs-fan-" + pref)
        cases = gen_cases(run, "ValueStackGen.tla", dict(vs_consts, SimDepth="40", Caps="{2, 3, 5, 8}", PreferOk=pref),
                          "ValueStackSim" + pref, simulate=nsim, depth=41, seed=seed)
        replay(run, "stacks-replay", cases, "vs-sim-" + pref)
        cases = gen_cases(run, "BoundedStackGen.tla", dict(bs_consts, SimDepth="30", Caps="{1, 2, 4}", MaxElems="40", PreferOk=pref),
                          "BoundedStackSim" + pref, simulate=nsim * 4, depth=31, seed=seed)
        replay(run, "stacks-replay", cases, "bs-sim-" + pref)
    # 3. impl -> spec: random histories for capacities up to 256, validated by TLC
    d = workdir("C14-traces")
    files_vs, files_bs = [], []
    nfiles = 4 if not thorough else 12
    ncases = 60 if not thorough else 250
    for k in range(nfiles):
        f = os.path.join(d, "vs%d.ndjson" % k)
        cv(["stacks-drive", "--kind", "vs", "--seed", seed * 1000 + k, "--cases", ncases, "--len", 80, "--maxcap",
            [4, 8, 32, 256][k % 4], "--out", f])
        files_vs.append(f)
        f = os.path.join(d, "bs%d.ndjson" % k)
        cv(["stacks-drive", "--kind", "bs", "--seed", seed * 1000 + 500 + k, "--cases", ncases, "--len", 80, "--maxcap",
            [2, 6, 20, 64][k % 4], "--out", f])
        files_bs.append(f)
    validate_traces(run, "ValueStackTrace.tla", {"Caps": "{1}", "Vals": '{"a", "b"}'}, ["Inv"], files_vs, "vs-trace")
    validate_traces(run, "BoundedStackTrace.tla", {"Caps": "{1}", "MaxElems": "1000000"}, ["Inv"], files_bs, "bs-trace")
    run.sample(dict(direction="impl->spec", records=first_records(files_vs[0], 4)))
    run.assumptions += ["model values a,b stand for Integer(1), Integer(2); Value is Copy so element identity is irrelevant for ValueStack",
                        "clear_until above the current height is not generated (meaning not stated by the property)"]
    return run.finish("model_checking",
                      "cases = TLC-generated (path to a distinct abstract state + every enabled call) or TLC-simulated behaviours "
                      "replayed on the real stacks, plus harness-driven random histories validated by TLC; distinct = distinct "
                      "(kind, capacity, operation path)")
