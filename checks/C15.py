"""C15 - error locations identify the failing card and its call chain."""
from cardsem import *


def main(tier, seed):
    run = Run("C15", tier, seed)
    thorough = tier == "thorough"
    d = workdir("C15")
    files = []
    n = 400 if not thorough else 4000
    f = os.path.join(d, "errors.ndjson")
    drive_programs("errors", seed + 3, n, f)
    files += split_file(f, 12, d, "errors")
    f = os.path.join(d, "cerrors.ndjson")
    drive_programs("cerrors", seed + 5, n // 2, f)
    files += split_file(f, 4, d, "cerrors")
    note_program_stats(run, files)
    mism, stats = validate_programs(run, files, "C15", nproc=14, timeout=2400)
    report_mismatches(run, mism)
    run.notes["runs_ending_in_a_located_error"] = stats.get("err", 0)
    run.notes["located_compile_errors"] = stats.get("cerr", 0)
    if stats.get("err", 0) < 20:
        run.thin_corpus("too few error runs to say anything about locations")
    # errors the reference machine cannot place (it does not count instructions): runs cut off by a small random budget end in Timeout
    # at every kind of instruction.  VmInstrTrace follows the call frames instruction by instruction; when the run ends it demands
    # that the error's trace begins with a card of the function whose instruction failed and has one entry per active caller
    instr_conformance(run, ["calls", "deep", "errors", "closures"], 150 if not thorough else 1500, seed + 7, "C15-loc",
                      lambda m: "error's trace" in str(m.get("why")), max_events=400, vary_budget=True)
    run.sample(dict(record=dict((k, v) for k, v in json.loads(open(files[0]).readline()).items() if k in ("id", "obs"))))
    run.assumptions += ["an error-provoking card of each fallible kind is planted at random statement positions (inside loops, branches, closures, callees) and "
                        "in non-last operand positions; the reference machine carries the current card index and the active call cards",
                        "the crate may append the program entry to the chain (admitted by the property)",
                        "indices follow Card::get_child numbering, i.e. what Module::get_card resolves"]
    return run.finish("model_checking",
                      "programs with one planted run-time error (11 error shapes x random positions) judged by the reference machine including "
                      "trace[0] and the call chain, and programs with one planted compile-time error judged against the planted index")
