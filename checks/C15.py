"""C15 - error locations identify the failing card and its call chain."""
from cardsem import *


def main(tier, seed):
    run = Run("C15", tier, seed)
    thorough = tier == "thorough"
    d = workdir("C15")
    files = []
    n = 400 if not thorough else 4000
    f = os.path.join(d, "errors.ndjson")
    drive_programs("errors", seed + 3, n, f)
    files += split_file(f, 12, d, "errors")
    f = os.path.join(d, "cerrors.ndjson")
    drive_programs("cerrors", seed + 5, n // 2, f)
    files += split_file(f, 4, d, "cerrors")
    note_program_stats(run, files)
    mism, stats = validate_programs(run, files, "C15", nproc=14, timeout=2400)
    report_mismatches(run, mism)
    run.notes["runs_ending_in_a_located_error"] = stats.get("err", 0)
    run.notes["located_compile_errors"] = stats.get("cerr", 0)
    if stats.get("err", 0) < 20:
        run.thin_corpus("too few error runs to say anything about locations")
    run.sample(dict(record=dict((k, v) for k, v in json.loads(open(files[0]).readline()).items() if k in ("id", "obs"))))
    run.assumptions += ["an error-provoking card of each fallible kind is planted at random statement positions (inside loops, branches, closures, callees) and "
                        "in non-last operand positions; the reference machine carries the current card index and the active call cards",
                        "the crate may append the program entry to the chain (admitted by the property)",
                        "indices follow Card::get_child numbering, i.e. what Module::get_card resolves"]
    return run.finish("model_checking",
                      "programs with one planted run-time error (11 error shapes x random positions) judged by the reference machine including "
                      "trace[0] and the call chain, and programs with one planted compile-time error judged against the planted index")
