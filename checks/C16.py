"""C16 - the module editing API is index-consistent and atomic."""
from common import *

INV = ["UniqueIndex", "LookupAgrees", "RemoveUndoesInsert", "ReplaceBackRestores", "SwapTwiceIsIdentity",
       "FailedEditsChangeNothing", "AncestorSwapFails"]


def main(tier, seed):
    run = Run("C16", tier, seed)
    thorough = tier == "thorough"
    depth = "1" if not thorough else "2"
    for s in (1, 2, 3):
        consts = dict(Seed=str(s), MaxOps=depth)
        mc(run, "ModuleEdit.tla", consts, INV, "C16-MC%d" % s, workers=8)
        cases = gen_cases(run, "ModuleEditGen.tla", consts, "C16-Fan%d" % s, workers=8, timeout=1800)
        if thorough and len(cases) > 1500:
            import random
            rnd = random.Random(seed)
            cases = cases[:200] + rnd.sample(cases[200:], 1300)
        replay(run, "modedit-replay", cases, "modedit-fan%d" % s)
    d = workdir("C16-traces")
    files = []
    nfiles = 4 if not thorough else 12
    for k in range(nfiles):
        f = os.path.join(d, "m%d.ndjson" % k)
        ncases = 30 if not thorough else 100
        drive_trace(["modedit-drive", "--seed", seed * 1000 + k, "--cases", ncases, "--len", 40], f, ncases)
        files.append(f)
    validate_traces(run, "ModuleEditTrace.tla", dict(Seed="1", MaxOps="0"), ["Inv"], files, "modedit-trace", timeout=1200)
    run.sample(dict(direction="impl->spec", records=first_records(files[0], 2)))
    run.assumptions += ["cards are abstracted to shape classes; every case is replayed with all 19 assignments of concrete CardBody variants to classes, so all 43 kinds occur in every position class",
                        "which placeholder card fills a vacated fixed slot is not compared (any leaf); the error variant of a failed edit is not compared",
                        "whether swapping a card with itself reports success is not specified (both admitted), but it must not change the module"]
    return run.finish("model_checking",
                      "cases = TLC-generated (path to each distinct module state + every enabled edit) replayed through Module::{get,insert,"
                      "remove,replace,swap}_card with walk/child-enumeration consistency checked after every call, plus random edit histories "
                      "on random forests validated by TLC; distinct = distinct (seed module, edit path)")
