"""C17 - a cleared VM behaves like a fresh one; runs are deterministic and do not leak."""
from common import *


def main(tier, seed):
    run = Run("C17", tier, seed)
    thorough = tier == "thorough"
    mc(run, "VmLife.tla", dict(Progs='{"p", "q"}'), ["TypeOK"], "C17-MC", extra="PROPERTY NoGrowth\n")
    d = workdir("C17-traces")
    n = 10 if not thorough else 60
    nfiles = 4 if not thorough else 12

    def job(i):
        def go():
            f = os.path.join(d, "life%d.ndjson" % i)
            drive_trace(["life-drive", "--seed", seed * 100 + i, "--n", n, "--len", 14 if not thorough else 30], f, n, timeout=1800)
            return f
        return go
    files = parallel([job(i) for i in range(nfiles)], nproc=4)
    stats = dict(histories=0, runs=0, clears=0, runs_on_clean_vm=0, outcomes={})
    for f in files:
        clean = True
        for l in open(f):
            r = json.loads(l)
            if r["e"] == "Reset":
                stats["histories"] += 1
                clean = True
            elif r["e"] == "Clear":
                stats["clears"] += 1
                clean = True
            elif r["e"] == "Run":
                stats["runs"] += 1
                stats["runs_on_clean_vm"] += clean
                clean = False
                k = "%s:%s" % (r["p"], r["kind"] or r["st"])
                stats["outcomes"][k] = stats["outcomes"].get(k, 0) + 1
    run.notes["histories"] = stats
    if stats["clears"] < 10 or stats["runs"] < 300:
        run.thin_corpus("too few events: %s" % stats)
    validate_traces(run, "VmLifeTrace.tla", dict(Progs='{"p"}'), ["Inv"], files, "life-trace", timeout=1800,
                    site_of=lambda m: "%s:%s" % (m.get("event", {}).get("e"), m.get("event", {}).get("p", "")))
    run.evaluations += stats["runs"] + stats["clears"]
    for i in range(stats["histories"]):
        run.distinct.add(i)
    run.sample(dict(history_excerpt=[dict((k, v) for k, v in r.items() if k in ("e", "p", "st", "kind", "res")) for r in first_records(files[0], 6)]))
    run.assumptions += ["program classes: generated ok programs (plain, closures, allocating), timeout, call-stack overflow by recursion, value-stack overflow, "
                        "failing native, type error, program leaving values on the stack; every fifth history repeats one fine program 300 times",
                        "runs on a VM that is neither new nor just cleared may see globals of earlier programs; for those only repeatability and "
                        "absence of stack growth are demanded",
                        "the residue is read through the verif-hooks accessor RuntimeData::verif_residue"]
    return run.finish("model_checking",
                      "random histories of runs and clears on one VM; each run is paired with the same run on a newly created VM; TLC validates against "
                      "VmLife: after clear the residue (stack heights, globals, objects, open upvalues, accounted bytes, collection threshold) is that of a "
                      "new VM, a run on a clean VM has the outcome AND residue of the new VM, repeated runs have the same outcome and use no more stack")
