"""C18 - host functions receive the right arguments and can safely re-enter scripts."""
from cardsem import *


def main(tier, seed):
    run = Run("C18", tier, seed)
    thorough = tier == "thorough"
    d = workdir("C18")
    files = []
    n = 500 if not thorough else 5000
    f = os.path.join(d, "host.ndjson")
    drive_programs("host", seed + 13, n, f)
    files += split_file(f, 12, d, "host")
    note_program_stats(run, files)
    mism, stats = validate_programs(run, files, "C18", nproc=14, timeout=2400)
    report_mismatches(run, mism)
    # how many host calls of which kind were observed
    host = {}
    for tf in files:
        for l in open(tf):
            for c in json.loads(l)["obs"]["log"]:
                host[c["name"]] = host.get(c["name"], 0) + 1
    run.notes["host_calls_observed"] = host
    run.notes["runs_rejected_or_failed"] = stats.get("err", 0)
    if sum(v for k, v in host.items() if k.startswith("call")) < 20 or sum(v for k, v in host.items() if k.startswith("t_")) < 50:
        run.thin_corpus("too few host calls in the corpus")
    # reserved names
    names = os.path.join(d, "names.ndjson")
    cv(["host-register-names", "--out", names])
    cfg = os.path.join(d, "hostreg.cfg")
    open(cfg, "w").write("SPECIFICATION Spec\nINVARIANT Inv\nCHECK_DEADLOCK FALSE\n")
    r = tlc(os.path.join(SPEC, "HostReg.tla"), cfg, workers=1, env={"TRACE": names}, name="C18-hostreg")
    require_tlc_ok(r, "HostReg")
    if not any(p[0] == "TRACE-DONE" for p in r["prints"]):
        raise ToolError("HostReg did not evaluate")
    for p in r["prints"]:
        if p[0] == "MISMATCH":
            run.violation("reserved-name-rule", "register_native_function", p[1])
    run.add_tlc(r)
    run.sample(dict(host_calls=host))
    run.assumptions += ["typed host functions are real fn pointers registered through into_f1..into_f4 (arity 1-4, parameter types i64, f64, bool, &str, Value, "
                        "&CaoLangTable, Nilable<i64>); re-entering host functions report the balance of value stack and call stack around run_function",
                        "when several arguments are rejected the error may name any of them"]
    # instruction-level conformance: after a host call (and after a re-entry into the interpreter) the value stack holds what it
    # held before, minus the host function's parameters, plus one result, and the call frames are those of the caller
    instr_conformance(run, ["host", "std", "hosttry"], 40 if tier != "thorough" else 300, seed, "C18-instr",
                      lambda m: m.get("event", {}).get("e") in ("Reenter", "ReenterEnd") or
                      m.get("after", {}).get("op") in ("CallNative", "CallFunction") or
                      (m.get("event", {}).get("d", 1) > 1 and m.get("after", {}).get("op") == "Return"))
    # the same with the contents of the value stack (VmData.tla): after a host call the caller's values are what they were, less the
    # parameters, plus one result; nothing below is touched unless a called-back function assigns a captured variable
    instr_conformance(run, ["host", "hosttry"], 10 if tier != "thorough" else 100, seed + 1, "C18-data",
                      lambda m: "after a host call" in str(m.get("why")) or "below the frame" in str(m.get("why")), max_events=1500, values=True)
    # a callee that was re-entered through a host function fails, the host function handles the failure: the caller's variables
    # are untouched and what the callee's closures captured keeps its value (VmLife.Persist)
    pf = os.path.join(d, "persist.ndjson")
    cv(["persist-drive", "--out", pf])
    validate_traces(run, "VmLifeTrace.tla", dict(Progs='{"p"}'), ["Inv"], [pf], "C18-persist", timeout=600,
                    site_of=lambda m: str(m.get("event", {}).get("what")))
    run.viol = [v for v in run.viol if not (v["kind"] == "trace-rejected" and "made by the first run" in str(v["site"]))]
    return run.finish("model_checking",
                      "generated programs calling typed host functions (through CallNative cards and through native function values) with convertible "
                      "and non-convertible arguments, and host functions that re-enter script functions, closures and native function values (also "
                      "recursively); the reference machine specifies the converted arguments, the result, the TaskFailure wrapping and a zero stack balance")
