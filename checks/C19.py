"""C19 - value equality, hashing and ordering are mutually coherent."""
from common import *


def main(tier, seed):
    run = Run("C19", tier, seed)
    # 1. the explicit part of the specified relations is itself coherent (TLC evaluates the theorems over
    #    all pairs and triples of the universe)
    d = workdir("C19")
    cfg = os.path.join(d, "theorems.cfg")
    open(cfg, "w").write("SPECIFICATION Spec\nINVARIANT Theorems\nCHECK_DEADLOCK FALSE\n")
    r = tlc(os.path.join(SPEC, "ValueLaws.tla"), cfg, workers=2, name="C19-theorems")
    require_tlc_ok(r, "ValueLaws theorems")
    run.add_tlc(r)
    # 2. spec -> impl: TLC prints the universe, the harness builds every term twice in a real VM
    cfg = os.path.join(d, "universe.cfg")
    open(cfg, "w").write("SPECIFICATION Spec\nINVARIANT Universe\nCHECK_DEADLOCK FALSE\n")
    r = tlc(os.path.join(SPEC, "ValueLawsObs.tla"), cfg, workers=1, name="C19-universe", env={"TRACE": "/dev/null"})
    require_tlc_ok(r, "ValueLaws universe")
    uni = [p[1] for p in r["prints"] if p[0] == "UNIVERSE"]
    if not uni:
        raise ToolError("universe not printed")
    U = uni[0]
    cases = os.path.join(d, "rows.ndjson")
    with open(cases, "w") as f:
        for j in range(1, len(U) + 1):
            f.write(json.dumps({"row": j, "universe": U}) + "\n")
    res = run_cases(["values-row"], cases, len(U), idle_timeout=10.0)
    obs = os.path.join(d, "obs.ndjson")
    nrec = 0
    with open(obs, "w") as f:
        for j, rr in enumerate(res):
            if rr.get("status") != "ok":
                run.violation(rr.get("status", "error"), "compare/hash/truthiness", dict(row=j + 1, term=U[j], msg=rr.get("detail")))
                continue
            for rec in rr["records"]:
                f.write(json.dumps(rec) + "\n")
                nrec += 1
                run.distinct.add((rec["a"], rec["b"]))
    run.evaluations += nrec
    # 3. impl -> spec: TLC validates every entry and the laws on the observed relations
    cfg = os.path.join(d, "obs.cfg")
    open(cfg, "w").write("SPECIFICATION Spec\nINVARIANT ObsInv\nCHECK_DEADLOCK FALSE\n")
    r = tlc(os.path.join(SPEC, "ValueLawsObs.tla"), cfg, workers=1, name="C19-obs", env={"TRACE": obs}, stack="512m")
    require_tlc_ok(r, "ValueLaws observation")
    run.add_tlc(r)
    run.traces += 1
    if not any(p[0] == "TRACE-DONE" for p in r["prints"]):
        raise ToolError("observation table not fully evaluated")
    for p in r["prints"]:
        if p[0] == "MISMATCH":
            m = p[1]
            run.violation(m["kind"], "%s/%s" % (m["va"]["t"], m["vb"]["t"]), m)
    # 4. the ordering as min / max / sorting use it: equal sort keys are ties and ties keep the order of the entries, whatever
    #    their table keys are (judged by the library contracts of the reference machine)
    import probes
    from cardsem import run_programs, validate_programs, report_mismatches
    names = sorted(probes.C19_SORT_IDIOMS)
    out = run_programs([probes.C19_SORT_IDIOMS[n] for n in names], "ties", os.path.join(d, "ties.ndjson"))
    mism, stats = validate_programs(run, [out], "C19-ties", nproc=2, timeout=900)
    report_mismatches(run, mism)
    run.notes["tie_programs"] = len(names)
    run.notes["universe_size"] = len(U)
    run.notes["pairs"] = nrec
    run.notes["triples_checked"] = len(U) ** 3
    run.sample(dict(universe_excerpt=U[:3] + U[22:25]))
    run.sample(dict(observed=json.loads(open(obs).readline())))
    run.assumptions += ["the universe is the 35-term list U of ValueLaws.tla; every term is built twice so equal values are distinct objects",
                        "Eq/Cmp on function values, NaN, tables containing them, nil/nil, nil/object, string/table and equal-length unequal strings/tables are admitted sets",
                        "hash agreement is observed through the Hash impl fed to a SipHash hasher"]
    return run.finish("model_checking",
                      "evaluations = ordered pairs of universe terms evaluated on real values (==, hash, partial_cmp, as_bool); TLC checks each "
                      "entry against the admitted sets and the laws over all pairs and triples of the observed relations",
                      extra=dict(exhaustive=True))
