"""Shared recipe for the properties decided by the CardSem reference machine (C01, C06, C07-script, C09, C15, C18):
programs (seeded generator profiles of the harness, TLC-enumerated grammars, hand-written idioms) are compiled and run
by the real crate; TLC runs the reference machine CardSem on every program (CardSemCheck.tla), checks the machine
invariant WellFormed in every state and compares the observations."""
from common import *
import re

CHECK_CFG = "SPECIFICATION Spec\nINVARIANTS AllDone Inv\nCHECK_DEADLOCK FALSE\n"


def split_file(path, parts, d, label):
    lines = open(path).read().splitlines()
    lines = [l for l in lines if l.strip()]
    n = max(1, min(parts, (len(lines) + 39) // 40))
    files = []
    for k in range(n):
        f = os.path.join(d, "%s.part%d.ndjson" % (label, k))
        with open(f, "w") as fh:
            for l in lines[k::n]:
                fh.write(l + "\n")
        files.append(f)
    return files


def validate_programs(run, files, label, nproc=12, timeout=1500):
    """files: ndjson record files {id, profile, prog, obs, cmp_loc}. Returns list of (record, mismatch) and stats."""
    d = workdir("cfg-" + label)
    cfg = os.path.join(d, "check.cfg")
    open(cfg, "w").write(CHECK_CFG)

    def job(tf, i):
        def go():
            r = tlc(os.path.join(SPEC, "CardSemCheck.tla"), cfg, workers=1, env={"TRACE": tf}, timeout=timeout, heap="3g",
                    stack="1g", deque=True, name="%s-%d" % (label, i))
            require_tlc_ok(r, "CardSemCheck on %s" % os.path.basename(tf))
            if not any(p[0] == "TRACE-DONE" for p in r["prints"]):
                sys.stdout.write(r["out"][-3000:] + "\n")
                raise ToolError("CardSemCheck did not finish " + tf)
            return r
        return go

    results = parallel([job(tf, i) for i, tf in enumerate(files)], nproc=nproc)
    mism = []
    stats = dict(programs=0, ok=0, err=0, unspec=0, steps=0)
    for tf, r in zip(files, results):
        recs = [json.loads(l) for l in open(tf)]
        byid = {}
        for rec in recs:
            byid.setdefault((rec["id"], rec.get("profile")), rec)
        run.states += r["distinct"]
        run.transitions += r["generated"]
        k = 0
        for p in r["prints"]:
            if p[0] == "VERDICT":
                v = p[1]
                stats["programs"] += 1
                stats[v["st"]] = stats.get(v["st"], 0) + 1
                stats["steps"] += v["steps"]
                k += 1
            elif p[0] == "MISMATCH":
                stats["programs"] += 1
                rec = recs[k]
                k += 1
                mism.append((rec, p[1]))
    run.traces += stats["programs"]
    run.notes.setdefault("cardsem", []).append(dict(batch=label, **stats, mismatches=len(mism)))
    return mism, stats


def diff_summary(m):
    exp, got = m["expected"], m["got"]
    if isinstance(exp.get("globals"), list):
        exp["globals"] = {}
    if isinstance(got.get("globals"), list):
        got["globals"] = {}
    out = []
    if exp["st"] != got["st"] or (exp["st"] == "err" and exp["kind"] != got["kind"]):
        out.append("outcome: expected %s %s, got %s %s" % (exp["st"], exp["kind"], got["st"], got["kind"]))
    for k in sorted(set(exp["globals"]) | set(got["globals"])):
        a, b = exp["globals"].get(k), got["globals"].get(k)
        if a is None and (b or {}).get("t") in ("unset", "nil"):
            continue
        if a != b:
            out.append("global %s: expected %s, got %s" % (k, json.dumps(a)[:120], json.dumps(b)[:120]))
    if exp["log"] != got["log"]:
        for j, (x, y) in enumerate(zip(exp["log"], got["log"])):
            if x != y:
                out.append("host call #%d: expected %s, got %s" % (j, json.dumps(x)[:160], json.dumps(y)[:160]))
                break
        else:
            out.append("host calls: expected %d, got %d" % (len(exp["log"]), len(got["log"])))
    if exp["st"] == "err" and got["st"] == "err":
        out.append("location: expected at=%s chain=%s, got trace=%s" % (exp.get("at"), exp.get("chain"), got.get("trace")))
    return out


# ---- program features used to attribute a mismatch to a known finding -----------------------

def walk(c, fn, path=()):
    fn(c, path)
    for j, ch in enumerate(c["c"]):
        walk(ch, fn, path + ((c["k"], j),))


def features(prog):
    """syntactic features of a program that known findings are keyed on"""
    feats = set()
    VALUE_PARENTS = {"Add", "Sub", "Mul", "Div", "Less", "LessOrEq", "Equals", "NotEquals", "And", "Or", "Xor", "GetProperty",
                     "SetProperty", "Get", "AppendTable", "Call", "CallNative", "DynamicCall", "Array"}

    def visit(c, path):
        if c["k"] == "Array":
            pending = False
            cond = False
            for (pk, j) in path:
                if pk in VALUE_PARENTS:
                    # DynamicCall evaluates its arguments (children 1..) before the function (child 0)
                    first = (j == 1) if pk == "DynamicCall" else (j == 0)
                    if pk == "DynamicCall" and j == 0:
                        first = False
                    if not first:
                        pending = True
                if pk in ("IfTrue", "IfFalse", "IfElse") and j >= 1:
                    cond = True
                if pk == "While" and j == 1:
                    cond = True
                if pk in ("Repeat", "ForEach") and j == 1:
                    cond = False      # loop bodies have their own scope
                if pk == "Closure":
                    cond = False
                    pending = False
            if pending:
                feats.add("array-with-pending-operands")
            if cond:
                feats.add("array-in-conditional")
    def strays(c, path):
        # a loop body (own scope) holding both a Closure and a statement that leaves a value on the stack
        if c["k"] in ("Repeat", "ForEach"):
            body = c["c"][1]
            stmts = body["c"] if body["k"] == "CompositeCard" else [body]
            has_clo = []
            walk(body, lambda x, p: has_clo.append(1) if x["k"] == "Closure" else None)
            stray = any(st["k"] in ("Call", "DynamicCall", "CallNative", "PopTable", "ReadVar", "ScalarInt", "Add") for st in stmts)
            if has_clo and stray:
                feats.add("captured-scope-with-stray-value")
    for f in prog["fns"]:
        for c in f["body"]:
            walk(c, visit)
            walk(c, strays)
        # a local whose first assignment is inside a While body (no scope of its own)
        seen = set(f["params"])

        def decl(c, path, seen=seen):
            if c["k"] == "SetVar" and len(c["nm"]) == 1:
                name = c["nm"][0]["s"]
                inwhile = False
                for (pk, j) in path:
                    if pk == "While" and j == 1:
                        inwhile = True
                    if pk in ("Repeat", "ForEach", "Closure") and (pk == "Closure" or j == 1):
                        inwhile = False
                if name not in seen and inwhile:
                    feats.add("local-declared-in-while-body")
                seen.add(name)
            if c["k"] in ("Repeat", "ForEach"):
                for n in c["nm"]:
                    if n["s"]:
                        seen.add(n["s"])
        for c in f["body"]:
            walk(c, decl)
    return feats


def report_mismatches(run, mism, site_prefix=""):
    for rec, m in mism:
        feats = sorted(features(rec["prog"]))
        summ = diff_summary(m)
        kind = "semantics-mismatch"
        if m["got"]["st"] in ("panic", "abort", "hang"):
            kind = m["got"]["st"]
        elif m["got"]["st"] == "cerr":
            kind = "unexpected-compile-error"
        run.violation(kind, site_prefix + (rec.get("profile") or "?"),
                      dict(id=rec["id"], profile=rec.get("profile"), features=feats, feature=(feats[0] if len(feats) == 1 else ",".join(feats)), diff=summ[:6],
                           got_outcome=[m["got"]["st"], m["got"]["kind"]], expected_outcome=[m["expected"]["st"], m["expected"]["kind"]]),
                      case=dict(record=rec, expected=m["expected"]))


def drive_programs(profile, seed, n, out, max_size=400):
    def on_crash(info, kind, rc):
        return {"id": info["case"], "profile": profile, "prog": info["op"]["prog"],
                "obs": {"st": kind, "kind": "rc=%s" % rc, "globals": {}, "log": [], "trace": []}, "cmp_loc": False}
    return drive_trace(["cards-drive", "--profile", profile, "--seed", seed, "--n", n, "--max-size", max_size], out, n,
                       on_crash=on_crash)


def tlc_programs(run, shard, label):
    """programs enumerated by TLC from the bounded grammars of CardGen.tla"""
    d = workdir("cfg-" + label)
    cfg = os.path.join(d, "gen.cfg")
    open(cfg, "w").write('CONSTANT Shard = "%s"\nSPECIFICATION Spec\nINVARIANT Emit\nCHECK_DEADLOCK FALSE\n' % shard)
    progs = []
    r = tlc(os.path.join(SPEC, "CardGen.tla"), cfg, workers=4, name=label,
            on_print=lambda pr: progs.append(pr[1]) if pr[0] == "PROGRAM" else None)
    require_tlc_ok(r, "CardGen shard " + shard)
    run.add_tlc(r)
    if not progs:
        raise ToolError("CardGen produced no programs for shard " + shard)
    return progs


def run_programs(progs, profile, out, cmp_loc=False):
    """compile + run TLC-produced programs on the real crate (crash isolated); writes records to `out`"""
    d = os.path.dirname(out)
    cases = os.path.join(d, os.path.basename(out) + ".cases")
    with open(cases, "w") as f:
        for i, p in enumerate(progs):
            f.write(json.dumps({"id": i, "profile": profile, "prog": p, "cmp_loc": cmp_loc}) + "\n")
    res = run_cases(["cards-run"], cases, len(progs), idle_timeout=15.0)
    with open(out, "w") as f:
        for i, (p, r) in enumerate(zip(progs, res)):
            if r.get("status") == "ok":
                rec = r["record"]
            else:
                rec = {"id": i, "profile": profile, "prog": p, "cmp_loc": cmp_loc,
                       "obs": {"st": r.get("status", "abort"), "kind": str(r.get("detail"))[:200], "globals": {}, "log": [], "trace": []}}
            f.write(json.dumps(rec) + "\n")
    return out


def note_program_stats(run, files):
    kinds = {}
    n = 0
    for tf in files:
        for l in open(tf):
            rec = json.loads(l)
            n += 1
            run.distinct.add(digest(rec["prog"]))

            def v(c, path):
                kinds[c["k"]] = kinds.get(c["k"], 0) + 1
            for f in rec["prog"]["fns"]:
                for c in f["body"]:
                    walk(c, v)
    run.evaluations += n
    prev = run.notes.get("card_kinds_exercised", {})
    for k, c in kinds.items():
        prev[k] = prev.get(k, 0) + c
    run.notes["card_kinds_exercised"] = prev
