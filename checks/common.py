"""Shared recipe for the container-style properties (C07, C12, C13, C14, C16):
   1. TLC model-checks the base spec (invariants = the property's laws) exhaustively for small constants;
   2. spec -> impl: the *Gen module prints one case per distinct abstract state (path + every enabled
      operation with its admitted outcomes) and, in simulation mode, long random behaviours; the harness
      replays them on the real type and compares return value and projected state after every call;
   3. impl -> spec: the harness drives the real type with seeded random histories, TLC validates the
      recorded trace against the *Trace module (all invariants evaluated in every state)."""
import json, os, sys
sys.path.insert(0, os.path.join(os.path.dirname(os.path.abspath(__file__)), "..", "lib"))
from vlib import *  # noqa


def write_cfg(path, consts, spec, invariants=(), view=None, constraint=None, extra=""):
    with open(path, "w") as f:
        f.write("CONSTANTS\n")
        for k, v in consts.items():
            if str(v).startswith("<-"):
                f.write("  %s %s\n" % (k, v))
            else:
                f.write("  %s = %s\n" % (k, v))
        f.write("SPECIFICATION %s\n" % spec)
        if view:
            f.write("VIEW %s\n" % view)
        if invariants:
            f.write("INVARIANTS " + " ".join(invariants) + "\n")
        if constraint:
            f.write("CONSTRAINT %s\n" % constraint)
        f.write("CHECK_DEADLOCK FALSE\n")
        f.write(extra)


def mc(run, module, consts, invariants, name, workers=4, timeout=900, spec="Spec", constraint=None, extra="", view=None):
    """exhaustive model checking of the base spec; an invariant violation here is a defect of the
    specification itself (tool error), never of the implementation"""
    d = workdir("cfg-" + name)
    cfg = os.path.join(d, name + ".cfg")
    write_cfg(cfg, consts, spec, invariants, constraint=constraint, extra=extra, view=view)
    r = tlc(os.path.join(SPEC, module), cfg, workers=workers, timeout=timeout, name=name, coverage=True)
    require_tlc_ok(r, "model checking " + name)
    run.add_tlc(r)
    run.notes.setdefault("mc", []).append(dict(config=name, constants=consts, invariants=list(invariants),
                                               distinct_states=r["distinct"], states_generated=r["generated"],
                                               depth=r["depth"], wall_s=round(r["wall"], 1)))
    return r


def gen_cases(run, module, consts, name, simulate=None, depth=None, seed=None, workers=4, timeout=900,
              kind=None):
    d = workdir("cfg-" + name)
    cfg = os.path.join(d, name + ".cfg")
    write_cfg(cfg, consts, "GSpec", ["Emit"], view=None if simulate else "View")
    cases = []

    def on_print(pr):
        if pr[0] == "REPLAY":
            c = pr[1]
            if kind and "kind" not in c:
                c["kind"] = kind
            cases.append(c)

    r = tlc(os.path.join(SPEC, module), cfg, workers=(1 if simulate else workers), simulate=simulate, depth=depth,
            seed=seed, timeout=timeout, name=name, on_print=on_print)
    require_tlc_ok(r, "behaviour generation " + name)
    if not simulate:
        run.add_tlc(r)
    if not cases:
        raise ToolError("no behaviours produced by " + name)
    return cases


def replay(run, cmd, cases, label, idle_timeout=25.0):
    """returns number of executed steps"""
    d = workdir("replay-" + label)
    path = os.path.join(d, "cases.ndjson")
    with open(path, "w") as f:
        for c in cases:
            f.write(json.dumps(c) + "\n")
    res = run_cases([cmd], path, len(cases), idle_timeout=idle_timeout)
    steps = 0
    stats = dict(ok=0, diverged=0, violation=0)
    for c, r in zip(cases, res):
        steps += r.get("steps", 0)
        st = r.get("status")
        if st == "ok":
            stats["ok"] += 1
        elif st == "skipped":
            stats["skipped"] = stats.get("skipped", 0) + 1
        elif st == "diverged":
            stats["diverged"] += 1
        else:
            stats["violation"] += 1
            det = r.get("detail", {})
            if st in ("panic", "abort", "hang", "missing"):
                det = dict(kind=st, site="replay", msg=det, init=c.get("init"),
                           history=[s["op"] for s in c.get("prefix", [])])
            run.violation(det.get("kind", st), str(det.get("site")), det, case=dict(kind=c.get("kind"), init=c.get("init"),
                          history=[s["op"] for s in c.get("prefix", [])]))
        run.distinct.add(digest([c.get("kind"), c.get("init"), c.get("hashes"), [s["op"] for s in c.get("prefix", [])]]))
    run.evaluations += len(cases)
    run.notes.setdefault("replay", []).append(dict(batch=label, cases=len(cases), steps_executed=steps, **stats))
    if cases:
        c = cases[len(cases) // 2]
        run.sample(dict(direction="spec->impl", batch=label, init=c.get("init"),
                        ops=[s["op"] for s in c.get("prefix", [])][:12],
                        fan=len(c.get("fan", []))))
    return steps


def validate_traces(run, module, consts, invariants, trace_files, label, nproc=8, timeout=900, site_of=None):
    d = workdir("cfg-" + label)
    cfg = os.path.join(d, label + ".cfg")
    if module == "VmHeapTrace.tla":
        open(cfg, "w").write("SPECIFICATION Spec\nINVARIANTS AllDone " + " ".join(invariants) + "\nCHECK_DEADLOCK FALSE\n")
    else:
        write_cfg(cfg, consts, "TSpec", ["Done"] + list(invariants))

    def job(tf, i):
        return lambda: tlc_trace(os.path.join(SPEC, module), cfg, tf, name="%s-%d" % (label, i), timeout=timeout)

    results = parallel([job(tf, i) for i, tf in enumerate(trace_files)], nproc=nproc)
    lines = 0
    mism = 0
    for tf, r in zip(trace_files, results):
        lines += r["consumed"]
        run.states += r["distinct"]
        run.transitions += r["generated"]
        for m in r["mismatches"]:
            mism += 1
            kind = "trace-rejected"
            got = m.get("got", {})
            if isinstance(got.get("ret"), dict) and "panic" in got["ret"]:
                kind = "panic"
            site = site_of(m) if site_of else str(m.get("op", {}).get("op"))
            run.violation(kind, site, dict(trace=os.path.basename(tf), **m), case=dict(trace=tf, line=m.get("line")))
    run.traces += len(trace_files)
    run.notes.setdefault("trace_validation", []).append(dict(batch=label, files=len(trace_files), events=lines,
                                                              rejected_cases=mism))
    return lines


def model_check_vmdata(run, dmax):
    """VmData.tla as a closed model: straight-line programs over the integer fragment; every instruction has exactly one admitted
    effect there and a global reads back what was stored"""
    d = workdir("vmdata")
    cfg = os.path.join(d, "VmData.cfg")
    open(cfg, "w").write("CONSTANTS DMax = %d\nSPECIFICATION DSpec\nINVARIANTS Deterministic GlobalsKnown\nCHECK_DEADLOCK FALSE\n" % dmax)
    r = tlc(os.path.join(SPEC, "VmData.tla"), cfg, workers=4, timeout=1200, name="VmData-MC")
    require_tlc_ok(r, "VmData")
    run.add_tlc(r)
    return r


def split_instr_file(f, limit):
    """split an instruction trace at program boundaries ("Prog" records) into files of about `limit` records"""
    parts, cur, k = [], [], 0
    for ln in open(f):
        if ln.startswith('{"e":"Prog"') or '"e":"Prog"' in ln[:40]:
            if len(cur) >= limit:
                parts.append(cur)
                cur = []
        cur.append(ln)
    if cur:
        parts.append(cur)
    out = []
    for i, c in enumerate(parts):
        pf = "%s.part%d.ndjson" % (f[:-7], i)
        open(pf, "w").write("".join(c))
        out.append(pf)
    return out


def instr_conformance(run, profiles, n, seed, label, claims, max_events=4000, values=False, vary_budget=False):
    """Instruction-level conformance (VmInstr.tla): every executed instruction of generated programs is validated against the
    per-instruction model of instruction pointer, stack height and call frames.  `claims(m)` says whether a rejected record
    contradicts the property of the calling check; other rejections are deviations of the implementation from the model
    that no listed property forbids: they are printed and recorded, not reported as violations.
    values=True: the records also carry the contents of the value stack (hook Event::Stack) and every instruction is validated
    against VmData.tla as well (what the instruction does to the values on the stack and to the globals)."""
    d = workdir(label)
    files = []

    def job(i, prof):
        def go():
            f = os.path.join(d, "%s.ndjson" % prof)
            drive_trace(["instr-drive", "--profile", prof, "--seed", seed * 100 + i, "--n", n, "--max-events", max_events, "--values", 1 if values else 0, "--vary-budget", 1 if vary_budget else 0], f, n, timeout=1800)
            return f
        return go
    files = parallel([job(i, p) for i, p in enumerate(profiles)], nproc=4)
    if values:
        # value records are large: one TLC process per ~4000 records
        parts = []
        for f in files:
            parts += split_instr_file(f, 4000)
        files = parts
    cfg = os.path.join(d, label + ".cfg")
    open(cfg, "w").write("CONSTANTS MaxH = 4\nSPECIFICATION TSpec\nINVARIANTS Done\nCHECK_DEADLOCK FALSE\n")
    results = parallel([(lambda tf=tf, i=i: tlc_trace(os.path.join(SPEC, "VmInstrTrace.tla"), cfg, tf, name="%s-%d" % (label, i), timeout=2400))
                        for i, tf in enumerate(files)], nproc=8)
    ops = {}
    events = 0
    for f in files:
        for ln in open(f):
            if '"e":"I"' in ln:
                events += 1
                op = ln.split('"op":"', 1)[1].split('"', 1)[0]
                ops[op] = ops.get(op, 0) + 1
    claimed = deviations = 0
    for tf, r in zip(files, results):
        run.states += r["distinct"]
        run.transitions += r["generated"]
        for m in r["mismatches"]:
            if claims(m):
                claimed += 1
                site = "%s after %s" % (m.get("event", {}).get("op") or m.get("event", {}).get("e"), m.get("after", {}).get("op"))
                run.violation("instruction-level-trace-rejected", site, dict(trace=os.path.basename(tf), **m), case=dict(trace=tf, line=m.get("line")))
            else:
                deviations += 1
                if deviations <= 5:
                    print("MODEL-DEVIATION (not a violation of %s) %s: %s" % (run.pid, os.path.basename(tf), json.dumps(m)[:300]))
    run.traces += len(files)
    run.notes.setdefault("instruction_level_conformance", []).append(dict(
        batch=label, profiles=profiles, instruction_events=events, opcodes_executed=ops, rejected_and_claimed=claimed, stack_contents_validated=values,
        deviations_from_model_not_claimed=deviations))
    if len(ops) < 30:
        run.thin_corpus("instruction-level corpus executes only %d of 47 opcodes" % len(ops))
    return events


def heap_trace(run, profiles, n, collections, seed, label, claims):
    """Heap snapshots of the real collector validated against VmHeapTrace.  A rejected collection is a violation of the calling
    check's property only if `claims(why)`: freeing something reachable belongs to C02, leaving garbage (or leaving a guard
    mark on an object whose guard is gone, so that it can never be reclaimed) belongs to C05."""
    d = workdir(label)

    def hjob(i, prof):
        def go():
            f = os.path.join(d, "heap-%s.ndjson" % prof)
            drive_trace(["heap-drive", "--profile", prof, "--seed", seed * 100 + 50 + i, "--n", n, "--collections", collections], f, n, timeout=1800)
            return f
        return go
    hfiles = parallel([hjob(i, p) for i, p in enumerate(profiles)], nproc=4)
    # the hand-written closure and table idioms too (they end, like every run, with a collection after the run)
    import probes
    idioms = [probes.C06_IDIOMS[k] for k in sorted(probes.C06_IDIOMS)] + [probes.C07_IDIOMS[k] for k in sorted(probes.C07_IDIOMS)]
    icases = os.path.join(d, "idioms.cases")
    with open(icases, "w") as fh:
        for i, pr in enumerate(idioms):
            fh.write(json.dumps({"id": i, "prog": pr}) + "\n")
    fi = os.path.join(d, "heap-idioms.ndjson")
    drive_trace(["heap-drive", "--profile", "idioms", "--cases", icases, "--seed", seed, "--n", len(idioms), "--collections", collections], fi, len(idioms),
                timeout=1800)
    hfiles.append(fi)
    ncoll = sum(1 for f in hfiles for l in open(f) if '"Snapshot"' in l)
    nfree = sum(1 for f in hfiles for l in open(f) if '"Free"' in l)
    nq = sum(1 for f in hfiles for l in open(f) if '"Quiesce"' in l)
    run.notes["collections_with_snapshot"] = ncoll
    run.notes["objects_freed_in_them"] = nfree
    run.notes["collections_after_the_run_with_no_guard_alive"] = nq
    if ncoll < 50:
        run.thin_corpus("too few collections recorded: %d" % ncoll)
    before = len(run.viol)
    validate_traces(run, "VmHeapTrace.tla", {}, ["Safe"], hfiles, label + "-trace", timeout=2400, site_of=lambda m: str(m.get("why")))
    kept, other = [], 0
    for v in run.viol[before:]:
        why = str(v["detail"].get("why"))
        v["kind"] = "collector-" + ("freed-reachable-object" if "still reach" in why else "left-garbage" if "survived" in why
                                    else "kept-guard-mark" if "guarded" in why else "protocol")
        if claims(why):
            kept.append(v)
        else:
            other += 1
            if other <= 3:
                print("NOTE (rejected by VmHeapTrace, belongs to another property than %s): %s" % (run.pid, why))
    run.viol[before:] = kept
    run.notes["heap_trace_rejections_left_to_another_property"] = other
    return hfiles


def first_records(path, n=6):
    out = []
    with open(path) as f:
        for ln in f:
            out.append(json.loads(ln))
            if len(out) >= n:
                break
    return out
