"""C12 / C13 share MapSpec.tla; Kind selects CaoHashMap ("hm") or HandleTable ("ht")."""
from common import *

INV = ["TypeOK", "Frame", "InsertGet", "RemoveGet", "FailAtomic", "DropOnce"]


def run_map(pid, kind, tier, seed, caps_mc, caps_sim, assumptions):
    run = Run(pid, tier, seed)
    thorough = tier == "thorough"
    keys3 = '{"k1", "k2", "k3"}'
    keys5 = '{"k1", "k2", "k3", "k4", "k5"}'
    keys12 = "{" + ", ".join('"k%d"' % i for i in range(1, 13)) + "}"
    K = '"%s"' % kind
    base = dict(Keys=keys3, MaxV="3" if not thorough else "4", Kind=K, Caps=caps_mc, GenFail="TRUE" if kind == "hm" else "FALSE")
    # 1. model checking of the map laws
    mc(run, "MapSpec.tla", base, INV, pid + "-MapSpecMC", workers=8)
    # 2. spec -> impl
    nsim = 6 if not thorough else 60
    for pref in ("TRUE", "FALSE"):
        cases = gen_cases(run, "MapSpecGen.tla", dict(base, SimDepth="0", PreferOk=pref), pid + "-Fan" + pref, workers=8)
        replay(run, "maps-replay", cases, "%s-fan-%s" % (kind, pref))
        # long behaviours: without armed-allocator calls the specification is deterministic and never diverges
        cases = gen_cases(run, "MapSpecGen.tla", dict(base, Keys=keys12, MaxV="1000", Caps=caps_sim, SimDepth="60", PreferOk=pref,
                                                       GenFail="TRUE" if (pref == "FALSE" and kind == "hm") else "FALSE"),
                          pid + "-Sim" + pref, simulate=nsim, depth=61, seed=seed)
        replay(run, "maps-replay", cases, "%s-sim-%s" % (kind, pref))
    # 3. impl -> spec
    d = workdir(pid + "-traces")
    files = []
    nfiles = 6 if not thorough else 16
    ncases = 40 if not thorough else 150
    for k in range(nfiles):
        f = os.path.join(d, "%s%d.ndjson" % (kind, k))
        drive_trace(["maps-drive", "--kind", kind, "--seed", seed * 1000 + k, "--cases", ncases, "--len", [60, 150, 400][k % 3],
                     "--maxcap", [4, 9, 20, 40][k % 4], "--nkeys", [5, 8, 12][k % 3], "--fail", 1 if (k % 2 == 0 and kind == "hm") else 0], f, ncases)
        files.append(f)
    validate_traces(run, "MapSpecTrace.tla", dict(Keys=keys12, MaxV="1000000", Kind=K, Caps="{0}", GenFail="TRUE"), ["Inv"], files,
                    kind + "-trace", timeout=1200)
    run.sample(dict(direction="impl->spec", records=first_records(files[0], 4)))
    run.assumptions += assumptions
    return run.finish("model_checking",
                      "cases = TLC-generated (path to each distinct abstract map state + every enabled call, each replayed under "
                      "three real-key profiles: colliding/wrapping homes, sequential, random) or TLC-simulated behaviours over 12 keys, "
                      "plus harness-driven random histories validated by TLC; distinct = distinct (kind, initial capacity, operation path)")
