"""C12 / C13 share MapSpec.tla; Kind selects CaoHashMap ("hm") or HandleTable ("ht")."""
from common import *

INV = ["TypeOK", "Frame", "InsertGet", "RemoveGet", "FailAtomic", "DropOnce"]


def run_map(pid, kind, tier, seed, caps_mc, caps_sim, assumptions):
    run = Run(pid, tier, seed)
    thorough = tier == "thorough"
    keys3 = '{"k1", "k2", "k3"}'
    keys5 = '{"k1", "k2", "k3", "k4", "k5"}'
    keys12 = "{" + ", ".join('"k%d"' % i for i in range(1, 13)) + "}"
    K = '"%s"' % kind
    base = dict(Keys=keys3, MaxV="3" if not thorough else "4", Kind=K, Caps=caps_mc, GenFail="TRUE" if kind == "hm" else "FALSE")
    # 1. model checking of the map laws
    mc(run, "MapSpec.tla", base, INV, pid + "-MapSpecMC", workers=8)
    # 2. spec -> impl
    nsim = 6 if not thorough else 60
    for pref in ("TRUE", "FALSE"):
        cases = gen_cases(run, "MapSpecGen.tla", dict(base, SimDepth="0", PreferOk=pref), pid + "-Fan" + pref, workers=8)
        replay(run, "maps-replay", cases, "%s-fan-%s" % (kind, pref))
        if kind == "hm" and pref == "TRUE":
            # the same cases on a map whose values have no drop glue (the map decides per type whether it drops keys / values)
            replay(run, "maps-replay", [dict(c, kind="hmp") for c in cases], "hm-plain-values-fan")
        # long behaviours: without armed-allocator calls the specification is deterministic and never diverges
        cases = gen_cases(run, "MapSpecGen.tla", dict(base, Keys=keys12, MaxV="1000", Caps=caps_sim, SimDepth="60", PreferOk=pref,
                                                       GenFail="TRUE" if (pref == "FALSE" and kind == "hm") else "FALSE"),
                          pid + "-Sim" + pref, simulate=nsim, depth=61, seed=seed)
        replay(run, "maps-replay", cases, "%s-sim-%s" % (kind, pref))
    # 2b. the slot-level model (OpenAddr refines MapSpec): design invariants, then one replayed case per distinct slot layout
    oa_inv = ["ModOK", "ProbeInv", "NoDup", "ProbeEnds", "FindsAll", "Refines"]
    res8 = "{0, 1, 2, 3, 4, 5, 6, 7}"
    if kind == "hm":
        small = dict(KeySeq="<-KS3", Kind=K, Cap0s="{1, 4}", Mod="12", ResSet="{0, 3, 6, 9}", MaxV="4")
        # thorough: every initial capacity whose growth chain stays within divisors of 12 (1-3-4-6, 2-3-4-6, 3-4-6, 4-6)
        oa = dict(small, KeySeq="<-KS4") if not thorough else dict(small, KeySeq="<-KS4", Cap0s="{1, 2, 3, 4}")
    else:
        small = dict(KeySeq="<-KS3", Kind=K, Cap0s="{2}", Mod="8", ResSet=res8, MaxV="4")
        # (five handles would reach capacity 16: the handle table grows before an insertion even when the key is present)
        oa = dict(small, KeySeq="<-KS4") if not thorough else dict(small, KeySeq="<-KS4", Cap0s="{2, 4, 8}")
    # value-precise for three keys, then every layout (value ids abstracted by the VIEW) for more keys
    mc(run, "OpenAddr.tla", small, oa_inv, pid + "-OpenAddrMC", workers=8, timeout=1800)
    mc(run, "OpenAddr.tla", dict(oa, MaxV="0"), oa_inv, pid + "-OpenAddrLayouts", workers=8, timeout=3600, view="Layout")
    cases = gen_cases(run, "OpenAddrGen.tla", dict(oa, MaxV="0"), pid + "-OpenAddrFan", workers=8, timeout=3600)
    run.notes["slot_layouts_replayed"] = len(cases)
    replay(run, "maps-replay", cases, "%s-slots" % kind)
    # 3. impl -> spec
    d = workdir(pid + "-traces")
    files = []
    nfiles = 6 if not thorough else 16
    ncases = 40 if not thorough else 150
    for k in range(nfiles):
        f = os.path.join(d, "%s%d.ndjson" % (kind, k))
        drive_trace(["maps-drive", "--kind", ("hmp" if (kind == "hm" and k % 3 == 1) else kind), "--seed", seed * 1000 + k, "--cases", ncases, "--len", [60, 150, 400][k % 3],
                     "--maxcap", [4, 9, 20, 40][k % 4], "--nkeys", [5, 8, 12][k % 3], "--fail", 1 if (k % 2 == 0 and kind == "hm") else 0], f, ncases)
        files.append(f)
    validate_traces(run, "MapSpecTrace.tla", dict(Keys=keys12, MaxV="1000000", Kind=K, Caps="{0}", GenFail="TRUE"), ["Inv"], files,
                    kind + "-trace", timeout=1200)
    run.sample(dict(direction="impl->spec", records=first_records(files[0], 4)))
    run.assumptions += assumptions
    return run.finish("model_checking",
                      "cases = TLC-generated (path to each distinct abstract map state + every enabled call, each replayed under "
                      "three real-key profiles: colliding/wrapping homes, sequential, random) or TLC-simulated behaviours over 12 keys, "
                      "plus one case per distinct slot layout of the slot-level model OpenAddr (every assignment of home slots to 3-5 keys, "
                      "before and after growth; real keys found by searching the real hash for the residues the model chose), "
                      "plus harness-driven random histories validated by TLC; distinct = distinct (kind, initial capacity, home slots, operation path)")
