"""Deterministic probe programs: one per known finding (so that the finding is exercised on every run) and
idioms that pin behaviours the generators reach only occasionally."""
from progdsl import *

C01_PROBES = {
    # Array card evaluated while operands of an enclosing card are pending: its hidden local takes the
    # slot of the pending operand   10 + len([1,2,3])  ->  3
    "array-with-pending-operands": Prog([SetG("r", Op("Add", Int(10), Op("Len", Arr(Int(1), Int(2), Int(3)))))]),
    # Array card in a branch that is not executed: its hidden function-level local shifts every later local
    "array-in-conditional": Prog([If(Int(0), SetG("a", Arr(Int(1)))), Set("x", Int(5)), Set("y", Int(6)),
                                  SetG("r", Op("Add", Rd("x"), Rd("y")))]),
    # first assignment of a local inside a While body that runs zero times, then another new local
    "local-declared-in-while-body": Prog([Set("w", Int(0)),
                                          While(Op("Less", Int(0), Rd("w")), Blk(Set("n", Int(1)), Set("w", Op("Sub", Rd("w"), Int(1))))),
                                          Set("z", Int(7)), SetG("r", Rd("z"))]),
}
