"""Deterministic probe programs: one per known finding (so that the finding is exercised on every run) and
idioms that pin behaviours the generators reach only occasionally."""
from progdsl import *

_TINY = lambda: C("ScalarFloat", s="tiny")        # 2^-60: non-zero, far below any tolerance somebody might be tempted to use
_NTINY = lambda: C("ScalarFloat", s="-tiny")      # -2^-200
C01_PROBES = {
    # truthiness of reals: exactly zero is false, everything else is true (conditions and boolean operators)
    "tiny-real-truthiness": Prog([SetG("a", Int(0)), SetG("b", Int(0)), SetG("c", Int(0)),
                                  If(_TINY(), SetG("a", Int(1))),
                                  IfElse(_NTINY(), SetG("b", Int(1)), SetG("b", Int(2))),
                                  C("IfFalse", [_TINY(), SetG("c", Int(1))]),
                                  SetG("n", Op("Not", _TINY())), SetG("an", Op("And", _TINY(), Int(1))),
                                  SetG("o", Op("Or", _NTINY(), Int(0))), SetG("x", Op("Xor", _TINY(), Int(0))),
                                  Set("w", _TINY()), Set("k", Int(0)),
                                  While(Rd("w"), Blk(Set("k", Op("Add", Rd("k"), Int(1))), Set("w", Int(0)))), SetG("k", Rd("k")),
                                  SetG("z", Op("Not", Real(0, 0))), If(Real(0, 0), SetG("zz", Int(1)))]),
    # the boolean operators are strict: both operands are evaluated, left to right, whatever the left one is
    # (host calls, a callee that assigns a global, a callee that calls the host - each as the right operand of a decided operator)
    "boolean-operators-evaluate-both-operands": Prog(
        [SetG("t", Int(0)),
         SetG("a", Op("And", Int(0), Log(Int(7)))), SetG("b", Op("Or", Int(5), Log(Int(8)))),
         SetG("c", Op("And", Nil(), Call("touch"))), SetG("d", Op("Or", Str("x"), Call("touch"))),
         SetG("e", Op("And", Log(Int(1)), Log(Int(2)))), SetG("f", Op("Or", Log(Int(3)), Log(Int(4)))),
         SetG("g", Op("Xor", Int(1), Call("touch"))),
         SetG("h", Op("And", Op("Or", Int(1), Call("touch")), Op("And", Int(0), Call("touch")))),
         If(Op("Or", Int(1), Call("touch")), SetG("i", Int(1))),
         Set("w", Int(2)),
         While(Op("And", Rd("w"), Call("touch")), Set("w", Op("Sub", Rd("w"), Int(1))))],
        ("touch", [], [SetG("t", Op("Add", Rd("t"), Int(1))), Log(Rd("t")), Ret(Int(1))])),
    # Array card evaluated while operands of an enclosing card are pending: its hidden local takes the
    # slot of the pending operand   10 + len([1,2,3])  ->  3
    "array-with-pending-operands": Prog([SetG("r", Op("Add", Int(10), Op("Len", Arr(Int(1), Int(2), Int(3)))))]),
    # Array card in a branch that is not executed: its hidden function-level local shifts every later local
    "array-in-conditional": Prog([If(Int(0), SetG("a", Arr(Int(1)))), Set("x", Int(5)), Set("y", Int(6)),
                                  SetG("r", Op("Add", Rd("x"), Rd("y")))]),
    # first assignment of a local inside a While body that runs zero times, then another new local
    "local-declared-in-while-body": Prog([Set("w", Int(0)),
                                          While(Op("Less", Int(0), Rd("w")), Blk(Set("n", Int(1)), Set("w", Op("Sub", Rd("w"), Int(1))))),
                                          Set("z", Int(7)), SetG("r", Rd("z"))]),
}


def _counter_pair():
    # mk() returns a table of two sibling closures sharing the local n; used after mk's scope has exited
    return Prog(
        [Set("p", Int(100)), Set("q", Int(200)),
         Set("o", Call("mk", Int(5))),
         SetG("a", Dyn(Rd("o.inc"))), SetG("b", Dyn(Rd("o.inc"))), SetG("c", Dyn(Rd("o.get"))),
         SetG("pq", Op("Add", Rd("p"), Rd("q")))],
        ("mk", ["start"], [Set("n", Rd("start")), Set("o", Table()),
                           Set("o.inc", Closure([], Set("n", Op("Add", Rd("n"), Int(1))), Ret(Rd("n")))),
                           Set("o.get", Closure([], Ret(Rd("n")))),
                           Ret(Rd("o"))]))


C06_IDIOMS = {
    "siblings-share-after-exit": _counter_pair(),
    # sharing while the scope is alive: the closure's write is visible to the enclosing function and vice versa
    "share-while-alive": Prog([Set("x", Int(1)), Set("f", Closure([], Set("x", Op("Add", Rd("x"), Int(10))), Ret(Rd("x")))),
                               SetG("a", Dyn(Rd("f"))), Set("x", Int(5)), SetG("b", Dyn(Rd("f"))), SetG("c", Rd("x"))]),
    # each loop iteration captures a distinct variable
    "loop-distinct-capture": Prog([Set("fs", Table()),
                                   Repeat("i", Int(3), Blk(Set("j", Op("Mul", Rd("i"), Int(2))),
                                                           C("AppendTable", [Closure([], Ret(Op("Add", Rd("i"), Rd("j")))), Rd("fs")]))),
                                   ForEach("", "", "f", Rd("fs"), Blk(Log(Dyn(Rd("f")))))]),
    # closure created at call depth 2 under frames with parameters and locals; three levels of nesting
    "nested-three-deep": Prog([Set("z", Int(7)), SetG("r", Call("outer", Int(1), Int(2)))],
                              ("outer", ["a", "b"], [Set("l", Int(3)), Ret(Call("mid", Rd("a"), Op("Add", Rd("b"), Rd("l"))))]),
                              ("mid", ["c", "d"], [Set("m", Int(10)),
                                                   Set("f", Closure(["e"], Set("g", Closure(["h"], Ret(Op("Add", Op("Add", Rd("c"), Rd("m")), Op("Add", Rd("e"), Rd("h")))))),
                                                                    Ret(Dyn(Rd("g"), Int(1000))))),
                                                   Ret(Dyn(Rd("f"), Op("Mul", Rd("d"), Int(100))))])),
    # a loop variable shadowing an outer local of the same name: the closure names the inner one
    "shadowed-loop-variable": Prog([Set("i", Int(50)), Set("fs", Table()),
                                    Repeat("i", Int(2), Blk(C("AppendTable", [Closure([], Ret(Rd("i"))), Rd("fs")]))),
                                    ForEach("", "", "f", Rd("fs"), Blk(Log(Dyn(Rd("f"))))), SetG("outer", Rd("i"))]),
    # captured loop variable plus a bare value-producing statement in the same body
    "captured-loop-var-with-stray-value": Prog([Set("fs", Table()),
                                                Repeat("i", Int(2), Blk(C("AppendTable", [Closure([], Ret(Rd("i"))), Rd("fs")]), Call("noop"))),
                                                ForEach("", "", "f", Rd("fs"), Blk(Log(Dyn(Rd("f")))))],
                                               ("noop", [], [Ret(Int(0))])),
    # the same card position in two functions of two modules: each call must run its own closure body
    "same-position-two-modules": Prog([SetG("a", Dyn(Call("m1.mk"))), SetG("b", Dyn(Call("m2.mk")))],
                                      ("m1.mk", [], [Ret(Closure([], Ret(Int(1))))]),
                                      ("m2.mk", [], [Ret(Closure([], Ret(Int(2))))])),
    "same-position-two-functions": Prog([SetG("a", Dyn(Call("mk1"))), SetG("b", Dyn(Call("mk2")))],
                                        ("mk1", [], [Ret(Closure([], Ret(Int(1))))]),
                                        ("mk2", [], [Ret(Closure([], Ret(Int(2))))])),
    # closure passed to and invoked by another function, writing a captured variable of its creator
    "callback-writes-creator-local": Prog([Set("acc", Int(0)), Call("each3", Closure(["v"], Set("acc", Op("Add", Rd("acc"), Rd("v"))), Ret(Int(0)))),
                                           SetG("r", Rd("acc"))],
                                          ("each3", ["cb"], [Repeat("i", Int(3), Blk(Dyn(Rd("cb"), Rd("i")))), Ret(Int(0))])),
    # captures in another order than the declarations (the list of open captured variables is kept sorted by slot), the
    # creating function returns, other calls reuse its stack slots, then every closure is used
    "capture-order-permuted": Prog([Set("fs", Call("mk")), Call("noise", Int(100), Int(101), Int(102)),
                                    ForEach("", "", "f", Rd("fs"), Blk(Log(Dyn(Rd("f")))))],
                                   ("mk", [], [Set("a", Int(11)), Set("b", Int(22)), Set("c", Int(33)), Set("fs", Table()),
                                               C("AppendTable", [Closure([], Ret(Rd("a"))), Rd("fs")]),
                                               C("AppendTable", [Closure([], Ret(Rd("c"))), Rd("fs")]),
                                               C("AppendTable", [Closure([], Set("b", Op("Add", Rd("b"), Int(1))), Ret(Rd("b"))), Rd("fs")]),
                                               Ret(Rd("fs"))]),
                                   ("noise", ["p", "q", "r"], [Set("s", Op("Add", Rd("p"), Rd("q"))), Set("t", Int(100)), Set("u", Int(100)),
                                                               Ret(Rd("s"))])),
    # a callee captures its parameters (last declared parameter in the lowest slot) while a local of the caller is captured too
    "caller-capture-survives-callee-captures": Prog([Set("g", Call("outer")), Call("noise", Int(100), Int(101), Int(102)), SetG("r", Dyn(Rd("g")))],
                                                    ("outer", [], [Set("x", Int(42)), Set("f", Closure([], Ret(Rd("x")))),
                                                                   Set("h", Call("inner", Int(10), Int(20))), SetG("hv", Dyn(Rd("h"))),
                                                                   Ret(Rd("f"))]),
                                                    ("inner", ["p", "q"], [Ret(Closure([], Ret(Op("Sub", Rd("p"), Rd("q")))))]),
                                                    ("noise", ["p", "q", "r"], [Set("s", Op("Add", Rd("p"), Rd("q"))), Set("t", Int(100)),
                                                                                Set("u", Int(100)), Ret(Rd("s"))])),
    # a capturing closure entered through a host function that re-enters the interpreter, and through a native-backed library
    # function: reads and writes captured variables, and creates an inner closure that captures the callback's parameter
    "captured-through-host-callback": Prog([Set("base", Int(100)), Set("n", Int(0)), Set("t", Arr(Int(3), Int(9), Int(4))),
                                            SetG("r", Native("call1", Closure(["v"], Set("n", Op("Add", Rd("n"), Int(1))),
                                                                              Ret(Op("Add", Rd("v"), Rd("base")))), Int(5))),
                                            SetG("n", Rd("n")),
                                            SetG("m", Call("std.min_by_key", Closure(["k", "v"], Ret(Op("Sub", Rd("base"), Rd("v")))), Rd("t"))),
                                            Set("mk", Native("call1", Closure(["v"], Ret(Closure([], Ret(Op("Add", Rd("v"), Rd("base")))))), Int(7))),
                                            SetG("q", Dyn(Rd("mk"))),
                                            SetG("s", Call("std.sorted_by_key", Closure(["k", "v"], Set("n", Op("Add", Rd("n"), Int(10))),
                                                                                        Ret(Op("Mul", Rd("v"), Rd("n")))), Rd("t"))),
                                            SetG("n2", Rd("n"))],
                                           natives=NATIVES + [{"name": "call1", "arity": 2, "beh": "call"}]),
    # the first thing a called-back closure does is to create an inner closure over a variable of ITS enclosing function
    "inner-closure-in-host-callback": Prog([Set("base", Int(100)),
                                            Set("mk", Native("call1", Closure(["v"], Ret(Closure([], Ret(Op("Add", Rd("v"), Rd("base")))))), Int(7))),
                                            SetG("q", Dyn(Rd("mk"))),
                                            Set("t", Arr(Int(3), Int(9), Int(4))),
                                            SetG("m", Call("std.max_by_key", Closure(["k", "v"], Set("f", Closure([], Ret(Op("Add", Rd("base"), Rd("v"))))),
                                                                                     Ret(Dyn(Rd("f")))), Rd("t")))],
                                           natives=NATIVES + [{"name": "call1", "arity": 2, "beh": "call"}]),
    # two captured variables are open at the same time in two frames; the later one is closed first and its closure survives,
    # the earlier one's closure dies: the earlier variable's value is garbage then
    "later-capture-outlives-earlier": Prog([SetG("g", Call("outer")), SetG("junk", Str("garbage one")), SetG("r", Dyn(Rd("g"))),
                                            SetG("junk", Str("garbage two"))],
                                           ("outer", [], [Set("y", Str("a long string that only the dead closure refers to")),
                                                          Set("c", Closure([], Ret(Rd("y")))), Set("keep", Call("inner", Int(5))),
                                                          SetG("len", Op("Len", Dyn(Rd("c")))), Ret(Rd("keep"))]),
                                           ("inner", ["a"], [Set("x", Op("Add", Rd("a"), Int(1))), Ret(Closure([], Ret(Rd("x"))))])),
    # closures nested two deep: the inner one captures a local and a parameter of the outer one, the outer one runs off its end
    # (no Return card), the inner one escapes through a global and is used afterwards
    "inner-closure-outlives-outer-closure": Prog([Set("mk", Closure(["p"], Set("x", Op("Add", Rd("p"), Int(40))),
                                                                        SetG("inner", Closure([], Set("x", Op("Add", Rd("x"), Int(1))), Ret(Op("Add", Rd("x"), Rd("p"))))),
                                                                        SetG("reader", Closure([], Ret(Rd("x")))))),
                                                  Dyn(Rd("mk"), Int(2)), Call("noise", Int(100), Int(101), Int(102)),
                                                  SetG("a", Dyn(Rd("inner"))), SetG("b", Dyn(Rd("inner"))), SetG("c", Dyn(Rd("reader")))],
                                                 ("noise", ["p", "q", "r"], [Set("s", Op("Add", Rd("p"), Rd("q"))), Set("t", Int(100)),
                                                                             Set("u", Int(100)), Ret(Rd("s"))])),
    # closure capturing a parameter and a local of a function called with arguments, early return in between
    "capture-param-early-return": Prog([Set("k", Int(9)), Set("f", Call("mk", Int(4), Int(6))), SetG("r", Dyn(Rd("f"), Int(1)))],
                                       ("mk", ["a", "b"], [Set("s", Op("Add", Rd("a"), Rd("b"))),
                                                           If(Op("Less", Int(0), Rd("s")), Ret(Closure(["x"], Ret(Op("Add", Op("Add", Rd("s"), Rd("a")), Rd("x")))))),
                                                           Ret(Closure(["x"], Ret(Int(-1))))])),
}


# ---- C07: sharing by reference through variables, fields, captured variables, parameters ------------------
C07_IDIOMS = {
    # a field that holds a table is overwritten with ANOTHER table of equal contents; afterwards the two are told apart
    "overwrite-with-equal-table": Prog([Set("cfg", Table()), Set("cfg.items", Table()), Set("old", Rd("cfg.items")), Set("fresh", Table()),
                                        Set("cfg.items", Rd("fresh")), C("AppendTable", [Int(1), Rd("fresh")]),
                                        SetG("through_field", Op("Len", Rd("cfg.items"))), SetG("old_len", Op("Len", Rd("old"))),
                                        Set("a", Table()), Set("a.n", Int(1)), Set("b", Table()), Set("b.n", Int(1)), Set("t", Table()),
                                        C("SetProperty", [Rd("a"), Rd("t"), Int(7)]), C("SetProperty", [Rd("b"), Rd("t"), Int(7)]),
                                        Set("a.n", Int(2)), Set("got", C("GetProperty", [Rd("t"), Int(7)])), SetG("n", Rd("got.n")),
                                        Set("z", Table()), C("SetProperty", [Real(0, 0), Rd("z"), Int(1)]), C("SetProperty", [Int(0), Rd("z"), Int(1)]),
                                        SetG("z", Rd("z"))]),
    # nil is a key like any other: for-each (and the library functions built on it) visit the entry and what follows it
    "nil-key-foreach": Prog([Set("t", Table()), C("SetProperty", [Int(10), Rd("t"), Int(1)]), C("SetProperty", [Int(20), Rd("t"), Nil()]),
                             C("SetProperty", [Int(30), Rd("t"), Str("z")]),
                             ForEach("i", "k", "v", Rd("t"), Blk(Log(Rd("i"), Rd("k"), Rd("v")))),
                             SetG("len", Op("Len", Rd("t"))), SetG("at_nil", C("GetProperty", [Rd("t"), Nil()])),
                             SetG("big", Call("std.filter", Closure(["k", "v", "i"], Ret(Op("Less", Int(15), Rd("v")))), Rd("t"))),
                             Set("u", Table()), C("SetProperty", [Int(5), Rd("u"), Nil()]), C("SetProperty", [Int(6), Rd("u"), Int(0)]),
                             ForEach("", "k", "v", Rd("u"), Blk(Log(Rd("k"), Rd("v"))))]),
    # a table that grows while string-literal keys and values are stored: key and value of the SetProperty in progress are only on the
    # operand stack when the growth allocates (and may collect)
    "setproperty-operands-during-growth": Prog(
        [SetG("t", Table())] +
        [C("SetProperty", [Str("the value number %d" % j), Rd("t"), Str("property-key-number-%d" % j)]) for j in range(14)] +
        [SetG("junk", Str("garbage"))] +
        [SetG("r%d" % j, C("GetProperty", [Rd("t"), Str("property-key-number-%d" % j)])) for j in range(14)] +
        [SetG("len", Op("Len", Rd("t"))), ForEach("", "k", "v", Rd("t"), Blk(Log(Rd("k"), Rd("v"))))]),
    # a table used as a key: it stays alive, with its own entries, as long as the outer table does
    "table-as-key": Prog([Set("outer", Table()), Call("fill", Rd("outer")), SetG("junk", Str("garbage one")), SetG("junk", Table()),
                          SetG("junk", Str("garbage two")), SetG("junk2", Arr(Int(1), Int(2), Int(3))), SetG("junk", Str("garbage three")),
                          ForEach("", "k", "v", Rd("outer"), Blk(Log(Rd("k.name"), Rd("k.n"), Rd("v")))),
                          SetG("len", Op("Len", Rd("outer")))],
                         ("fill", ["o"], [Set("kt", Table()), Set("kt.name", Str("inner name")), Set("kt.n", Int(7)),
                                          C("SetProperty", [Int(42), Rd("o"), Rd("kt")]), Ret(Int(0))])),
    # a row whose key cannot be found again (NaN), popped; then rows are read by index
    "unfindable-key-popped": Prog([Set("t", Table()), C("SetProperty", [Int(1), Rd("t"), Op("Div", Int(0), Int(0))]),
                                   SetG("p", Op("PopTable", Rd("t"))), SetG("len", Op("Len", Rd("t"))),
                                   SetG("row", C("Get", [Rd("t"), Int(0)])), Set("f", FnVal("one")),
                                   C("SetProperty", [Int(2), Rd("t"), Rd("f")]), SetG("p2", Op("PopTable", Rd("t"))),
                                   SetG("row2", C("Get", [Rd("t"), Int(0)])), SetG("row3", C("Get", [Rd("t"), Int(1)]))],
                                  ("one", [], [Ret(Int(1))])),
    # a string-keyed field written twice (every write names the field by a fresh string object), garbage created in between
    # and afterwards, then read, iterated and written a third time
    "field-overwritten": Prog([Set("t", Table()), Set("t.name", Int(1)), Set("t.other", Str("x")), SetG("junk", Str("garbage one")),
                               Set("t.name", Int(2)), SetG("junk", Str("garbage two")), SetG("junk2", Table()), SetG("junk", Str("garbage three")),
                               SetG("a", Rd("t.name")), Set("t.name", Int(3)), SetG("junk", Str("garbage four")),
                               SetG("b", Rd("t.name")), SetG("len", Op("Len", Rd("t"))),
                               ForEach("", "k", "v", Rd("t"), Blk(Log(Rd("k"), Rd("v")))), SetG("t", Rd("t"))]),
    "alias-variable": Prog([Set("t", Table()), Set("u", Rd("t")), Set("t.a", Int(1)), C("AppendTable", [Int(5), Rd("u")]),
                            SetG("through_t", Rd("t")), SetG("through_u", Rd("u")), SetG("len", Op("Len", Rd("u")))]),
    "table-in-field": Prog([Set("inner", Table()), Set("outer", Table()), Set("outer.child", Rd("inner")),
                            Set("inner.x", Int(7)), SetG("seen", Rd("outer.child.x")),
                            Set("outer.child.y", Int(8)), SetG("inner_after", Rd("inner"))]),
    "captured-table": Prog([Set("t", Table()), Set("add", Closure(["v"], C("AppendTable", [Rd("v"), Rd("t")]), Ret(Op("Len", Rd("t"))))),
                            SetG("a", Dyn(Rd("add"), Int(10))), SetG("b", Dyn(Rd("add"), Int(11))), Set("t.k", Str("x")),
                            SetG("c", Dyn(Rd("add"), Int(12))), SetG("t", Rd("t"))]),
    "parameter-mutation": Prog([Set("t", Arr(Int(1), Int(2))), Call("push9", Rd("t")), Call("push9", Rd("t")),
                                SetG("t", Rd("t")), SetG("popped", Op("PopTable", Rd("t"))), SetG("after_pop", Rd("t"))],
                               ("push9", ["x"], [C("AppendTable", [Int(9), Rd("x")]), Ret(Nil())])),
    "global-and-local": Prog([SetG("g", Table()), Set("l", Rd("g")), Set("l.a", Int(1)), SetG("h", Rd("g")),
                              C("SetProperty", [Int(2), Rd("g"), Str("b")]), SetG("l_after", Rd("l"))]),
    "append-pop-keys": Prog([Set("t", Table()), C("AppendTable", [Int(10), Rd("t")]), C("AppendTable", [Int(11), Rd("t")]),
                             SetG("p", Op("PopTable", Rd("t"))), SetG("k1", C("GetProperty", [Rd("t"), Int(1)])),
                             C("AppendTable", [Int(12), Rd("t")]), C("SetProperty", [Int(13), Rd("t"), Int(5)]),
                             C("AppendTable", [Int(14), Rd("t")]), SetG("t", Rd("t")),
                             ForEach("i", "k", "v", Rd("t"), Blk(Log(Rd("i"), Rd("k"), Rd("v")))),
                             SetG("row", C("Get", [Rd("t"), Int(1)]))]),
    "equal-keys-by-content": Prog([Set("t", Table()), C("SetProperty", [Int(1), Rd("t"), Str("ab")]),
                                   C("SetProperty", [Int(2), Rd("t"), Str("ab")]), C("SetProperty", [Int(3), Rd("t"), Real(1, 1)]),
                                   C("SetProperty", [Int(4), Rd("t"), Op("Div", Int(1), Int(2))]), C("SetProperty", [Int(5), Rd("t"), Nil()]),
                                   C("SetProperty", [Int(6), Rd("t"), Nil()]), C("SetProperty", [Int(7), Rd("t"), Op("Add", Int(1), Int(1))]),
                                   C("SetProperty", [Int(8), Rd("t"), Int(2)]), SetG("t", Rd("t")), SetG("n", Op("Len", Rd("t"))),
                                   SetG("missing", C("GetProperty", [Rd("t"), Str("zz")]))]),
}


# ---- C19: the ordering used by min / max / sorting agrees with equality: equal sort keys are ties, and ties keep the
# order of the entries whatever their table keys are --------------------------------------------------------------------------
def _tied(*kv):
    stm = [Set("t", Table())]
    for k, v in kv:
        stm.append(C("SetProperty", [v, Rd("t"), k]))
    return stm


C19_SORT_IDIOMS = {
    "ties-under-descending-keys": Prog(_tied((Int(2), Int(5)), (Int(0), Int(5)), (Int(3), Int(4)), (Int(1), Int(5))) +
                                       [SetG("s", Call("std.sorted", Rd("t"))), SetG("mn", Call("std.min", Rd("t"))),
                                        SetG("mx", Call("std.max", Rd("t"))),
                                        SetG("k", Call("std.sorted_by_key", Closure(["k", "v"], Ret(Int(0))), Rd("t")))]),
    "int-real-ties": Prog(_tied((Str("bb"), Int(1)), (Str("a"), Real(1, 0)), (Int(9), Int(1)), (Int(4), Real(1, 1))) +
                          [SetG("s", Call("std.sorted", Rd("t"))), SetG("mx", Call("std.max", Rd("t"))),
                           SetG("mn", Call("std.min", Rd("t")))]),
    "removed-and-stored-again": Prog(_tied((Int(0), Int(7)), (Int(1), Int(7)), (Int(2), Int(7))) +
                                     [SetG("p", Op("PopTable", Rd("t"))), Set("u", Table()),
                                      C("SetProperty", [Int(7), Rd("u"), Int(1)]), C("SetProperty", [Int(7), Rd("u"), Int(0)]),
                                      SetG("s", Call("std.sorted", Rd("u"))), SetG("mx", Call("std.max_by_key", Closure(["k", "v"], Ret(Rd("v"))), Rd("u")))]),
}
