"""Tiny DSL for hand-written card programs (probes for known findings, idioms) in the JSON encoding of CardSem."""


def C(k, c=(), i=0, e=0, s="", nm=()):
    return {"k": k, "c": list(c), "i": i, "e": e, "s": s, "nm": [{"s": x, "i": len(x.encode())} for x in nm]}


def Int(n): return C("ScalarInt", i=n)
def Real(n, e): return C("ScalarFloat", i=n, e=e)
def Str(x): return C("StringLiteral", s=x, i=len(x.encode()))
def Nil(): return C("ScalarNil")
def Table(): return C("CreateTable")
def Rd(path): return C("ReadVar", nm=path.split("."))
def Set(path, v): return C("SetVar", [v], nm=path.split("."))
def SetG(n, v): return C("SetGlobalVar", [v], nm=[n])
def Op(k, *ch): return C(k, ch)
def Call(f, *args): return C("Call", args, s=f)
def Native(f, *args): return C("CallNative", args, s=f)
def Dyn(f, *args): return C("DynamicCall", (f,) + tuple(args))
def FnVal(f): return C("Function", s=f)
def NatVal(f): return C("NativeFunction", s=f)
def Closure(params, *body): return C("Closure", body, nm=params)
def Blk(*cs): return C("CompositeCard", cs)
def Arr(*cs): return C("Array", cs)
def Repeat(i, n, body): return C("Repeat", [n, body], nm=[i])
def ForEach(i, k, v, it, body): return C("ForEach", [it, body], nm=[i, k, v])
def While(c, body): return C("While", [c, body])
def If(c, a): return C("IfTrue", [c, a])
def IfNot(c, a): return C("IfFalse", [c, a])
def IfElse(c, a, b): return C("IfElse", [c, a, b])
def Ret(v): return C("Return", [v])
def Log(*args): return Native("log%d" % len(args), *args)


NATIVES = [{"name": "log1", "arity": 1, "beh": "log"}, {"name": "log2", "arity": 2, "beh": "log"},
           {"name": "log3", "arity": 3, "beh": "log"}, {"name": "id1", "arity": 1, "beh": "id"},
           {"name": "fail0", "arity": 0, "beh": "fail"}]


def Prog(main, *fns, natives=None):
    """fns: (full name, params, body). Function indices inside their module are assigned in order."""
    allf = [("main", [], main)] + list(fns)
    counts = {}
    out = []
    for name, params, body in allf:
        ns = name.split(".")[:-1]
        key = ".".join(ns)
        fi = counts.get(key, 0)
        counts[key] = fi + 1
        out.append({"name": name, "params": list(params), "body": list(body), "fi": fi, "ns": ns})
    return {"fns": out, "natives": NATIVES if natives is None else natives}
