//! C10: projection of compiled programs for spec/BytecodeWF.tla (public fields of CaoCompiledProgram only)
use crate::cards::*;
use crate::gen::*;
use crate::util::*;
use cao_lang::prelude::*;
use serde_json::{json, Value as J};
use std::str::FromStr;

pub fn project(id: &J, compiled: &CaoCompiledProgram) -> J {
    let labels: Vec<J> = compiled
        .labels
        .0
        .iter()
        .map(|(h, l)| json!({"h": h.value().to_le_bytes().to_vec(), "pos": l.pos}))
        .collect();
    // variables: ids (name handle -> id) and names (Handle::from_u32(id) -> name) must describe one bijection
    let mut vars = vec![];
    for (_, vid) in compiled.variables.ids.iter() {
        let idn: u32 = serde_json::to_value(vid).unwrap().as_u64().unwrap() as u32;
        let name = compiled.variables.names.get(Handle::from_u32(idn));
        let back: i64 = match name {
            Some(n) => compiled
                .variables
                .ids
                .get(Handle::from_str(n).unwrap())
                .map(|v| serde_json::to_value(v).unwrap().as_i64().unwrap())
                .unwrap_or(-1),
            None => -1,
        };
        vars.push(json!({"id": idn, "name_ok": name.is_some(), "back": back}));
    }
    let trace: Vec<u32> = compiled.trace.iter().map(|(k, _)| *k).collect();
    json!({"id": id, "bc": compiled.bytecode, "data": compiled.data, "labels": labels, "vars": vars,
           "nids": compiled.variables.ids.len(), "nnames": compiled.variables.names.len(), "trace": trace})
}

/// bc-drive --profile P --seed S --n N --out FILE
pub fn drive(args: &[String]) {
    let seed = arg_num(args, "--seed", 1);
    let n = arg_num(args, "--n", 100) as usize;
    let profile = arg_val(args, "--profile").unwrap_or("default").to_string();
    let out = arg_val(args, "--out").expect("--out");
    let start = arg_num(args, "--start-case", 0) as usize;
    let append = arg_num(args, "--append", 0) == 1;
    let mut w = TraceWriter::open(out, append, 10_000);
    if start == 0 {
        // hand-written shapes the generator does not produce: a global whose first mention is a dotted path
        let f = |name: &str, body: Vec<C>| F { name: name.into(), params: vec![], body };
        let probes: Vec<(&str, P)> = vec![
            ("dotted-read-first", P { fns: vec![f("main", vec![setg("r", read("cfg.size"))]), f("setup", vec![setg("cfg", card("CreateTable", vec![]))])], natives: vec![], imports: vec![] }),
            ("dotted-read-deep", P { fns: vec![f("main", vec![setv("x", read("conf.a.b")), setg("out", read("x"))])], natives: vec![], imports: vec![] }),
            // consecutive strings of which the second is a proper suffix of the first (property names, literals, dotted paths)
            ("string-suffix", P { fns: vec![f("main", vec![setv("t", card("CreateTable", vec![])), setv("t.foobar", int(1)), setv("t.bar", int(2)),
                                                            setg("a", strlit("xy")), setg("b", strlit("y")), setg("c", read("t.bar")),
                                                            setg("d", strlit("value")), setg("e", strlit("value")), setg("g", strlit("")),
                                                            setv("u", card("CreateTable", vec![])), setv("u.ab", card("CreateTable", vec![])),
                                                            setg("h", read("u.ab.b"))])], natives: vec![], imports: vec![] }),
            // branches that emit no code
            ("empty-branches", P { fns: vec![f("main", vec![setg("c", int(0)),
                                                            card("IfElse", vec![read("c"), setg("a", int(1)), card("Comment", vec![])]),
                                                            setg("r", int(1)),
                                                            card("IfElse", vec![read("c"), card("Comment", vec![]), setg("b", int(2))]),
                                                            card("IfElse", vec![read("c"), setg("a", int(3)), block(vec![])]),
                                                            setg("s", strlit("after")),
                                                            card("IfTrue", vec![read("c"), card("Comment", vec![])]),
                                                            card("IfFalse", vec![read("c"), block(vec![])]),
                                                            card("While", vec![read("c"), block(vec![])]),
                                                            repeat("i", int(2), block(vec![])),
                                                            setg("t", int(9))])], natives: vec![], imports: vec![] }),
            // a global whose first mention is inside the value of the first assignment of another global
            ("global-first-mentioned-in-a-value", P { fns: vec![f("main", vec![call("init", vec![]), setg("result", card("Add", vec![read("base"), int(1)])),
                                                                              setg("third", card("Add", vec![read("other"), read("result")]))]),
                                                                f("init", vec![setg("base", int(41)), setg("other", int(1))])], natives: vec![], imports: vec![] }),
            ("dotted-set-first", P { fns: vec![f("main", vec![setv("opts.size.x", int(1)), setg("opts", card("CreateTable", vec![]))])], natives: vec![], imports: vec![] }),
        ];
        for (name, p) in probes {
            match guarded(|| cao_lang::compiler::compile(p.to_module(), None)) {
                Ok(Ok(c)) => w.line(project(&json!(format!("{profile}/probe-{name}")), &c)),
                Ok(Err(_)) => {}
                Err(msg) => w.line(json!({"id": format!("{profile}/probe-{name}"), "panic": msg, "bc": [], "data": [], "labels": [], "vars": [],
                                          "nids": 0, "nnames": 0, "trace": []})),
            }
        }
    }
    for id in start..n {
        let mut rng = Rng::new(seed.wrapping_mul(7_919_117).wrapping_add(id as u64));
        let p = Gen::new(&mut rng, Profile::named(&profile)).program();
        w.begin(id, &json!({"id": id, "profile": profile}));
        match guarded(|| cao_lang::compiler::compile(p.to_module(), None)) {
            Ok(Ok(c)) => w.end(project(&json!(format!("{profile}/{id}")), &c)),
            Ok(Err(_)) => w.end(json!({"id": format!("{profile}/{id}"), "skip": true, "bc": [10], "data": [], "labels": [], "vars": [],
                                       "nids": 0, "nnames": 0, "trace": []})),
            Err(msg) => w.end(json!({"id": format!("{profile}/{id}"), "panic": msg, "bc": [], "data": [], "labels": [], "vars": [],
                                     "nids": 0, "nnames": 0, "trace": []})),
        }
    }
    w.finish();
}

/// bc-run <cases.ndjson> (lines {id, prog}) -> projection of the compiled program
pub fn run_case(case: &J) -> J {
    let p = P::from_json(&case["prog"]);
    match cao_lang::compiler::compile(p.to_module(), None) {
        Ok(c) => json!({"status": "ok", "steps": 1, "record": project(&case["id"], &c)}),
        Err(e) => json!({"status": "ok", "steps": 1, "compile_error": format!("{:?}", e.payload)}),
    }
}
