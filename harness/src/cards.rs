//! Card programs as the harness sees them: one abstract AST with two total functions,
//! `to_json` (the encoding CardSem.tla reads) and `to_module` (the crate's own `Module`, built with
//! the crate's own types), plus compile + run + observe.
use cao_lang::compiler::*;
use cao_lang::prelude::*;
use serde_json::{json, Map, Value as J};
use std::cell::RefCell;
use std::rc::Rc;

#[derive(Clone, Debug, Default)]
pub struct C {
    pub k: &'static str,
    pub c: Vec<C>,
    pub i: i64,
    pub e: i64,
    pub s: String,
    pub nm: Vec<String>,
}

#[derive(Clone, Debug, Default)]
pub struct F {
    /// full (dotted) name
    pub name: String,
    pub params: Vec<String>,
    pub body: Vec<C>,
}

#[derive(Clone, Debug, Default)]
pub struct Native {
    pub name: String,
    pub arity: usize,
    pub beh: &'static str,
    /// declared parameter types of a "typed" host function
    pub types: Vec<&'static str>,
}

/// the typed / re-entering host functions the harness registers in every VM (C18)
pub fn typed_registry() -> Vec<Native> {
    let t = |name: &str, types: &[&'static str]| Native { name: name.into(), arity: types.len(), beh: "typed", types: types.to_vec() };
    let c = |name: &str, arity: usize| Native { name: name.into(), arity, beh: "call", types: vec!["value"; arity] };
    vec![
        t("t_i", &["i64"]), t("t_f", &["f64"]), t("t_b", &["bool"]), t("t_s", &["str"]), t("t_v", &["value"]),
        t("t_t", &["table"]), t("t_n", &["nilable_i64"]), t("t_ns", &["nilable_str"]), t("t_ins", &["i64", "nilable_str"]),
        t("t_if", &["i64", "f64"]), t("t_sv", &["str", "value"]),
        t("t_ifb", &["i64", "f64", "bool"]), t("t_vsi", &["value", "str", "i64"]),
        t("t_ifbs", &["i64", "f64", "bool", "str"]), t("t_svti", &["str", "value", "table", "i64"]),
        c("call0", 1), c("call1", 2), c("call2", 3),
    ]
}

#[derive(Clone, Debug, Default)]
pub struct P {
    /// fns[0] is main; names are full dotted names, submodules are derived from them
    pub fns: Vec<F>,
    pub natives: Vec<Native>,
    /// imports per module path ("" = root)
    pub imports: Vec<(String, Vec<String>)>,
}

// ---------------------------------------------------------------- constructors
pub fn card(k: &'static str, c: Vec<C>) -> C {
    C { k, c, ..Default::default() }
}
pub fn int(n: i64) -> C {
    C { k: "ScalarInt", i: n, ..Default::default() }
}
/// the dyadic rational n * 2^-e
pub fn real(n: i64, e: i64) -> C {
    C { k: "ScalarFloat", i: n, e, ..Default::default() }
}
pub fn strlit(s: &str) -> C {
    C { k: "StringLiteral", s: s.to_string(), i: s.len() as i64, ..Default::default() }
}
pub fn nil() -> C {
    card("ScalarNil", vec![])
}
pub fn named(k: &'static str, name: &str, c: Vec<C>) -> C {
    C { k, c, s: name.to_string(), ..Default::default() }
}
pub fn read(path: &str) -> C {
    C { k: "ReadVar", nm: path.split('.').map(|x| x.to_string()).collect(), ..Default::default() }
}
pub fn setv(path: &str, v: C) -> C {
    C { k: "SetVar", c: vec![v], nm: path.split('.').map(|x| x.to_string()).collect(), ..Default::default() }
}
pub fn setg(name: &str, v: C) -> C {
    C { k: "SetGlobalVar", c: vec![v], nm: vec![name.to_string()], ..Default::default() }
}
pub fn call(f: &str, args: Vec<C>) -> C {
    named("Call", f, args)
}
pub fn native(f: &str, args: Vec<C>) -> C {
    named("CallNative", f, args)
}
pub fn dyncall(f: C, mut args: Vec<C>) -> C {
    let mut c = vec![f];
    c.append(&mut args);
    card("DynamicCall", c)
}
pub fn closure(params: &[&str], body: Vec<C>) -> C {
    C { k: "Closure", c: body, nm: params.iter().map(|x| x.to_string()).collect(), ..Default::default() }
}
pub fn repeat(i: &str, n: C, body: C) -> C {
    C { k: "Repeat", c: vec![n, body], nm: vec![i.to_string()], ..Default::default() }
}
pub fn foreach(i: &str, k: &str, v: &str, it: C, body: C) -> C {
    C { k: "ForEach", c: vec![it, body], nm: vec![i.to_string(), k.to_string(), v.to_string()], ..Default::default() }
}
pub fn block(cs: Vec<C>) -> C {
    card("CompositeCard", cs)
}

// ---------------------------------------------------------------- JSON for TLC
impl C {
    pub fn to_json(&self) -> J {
        json!({"k": self.k, "c": self.c.iter().map(|c| c.to_json()).collect::<Vec<_>>(), "i": self.i, "e": self.e,
               "s": self.s, "nm": self.nm.iter().map(|n| json!({"s": n, "i": n.len()})).collect::<Vec<_>>()})
    }
    pub fn from_json(j: &J) -> C {
        C {
            k: kind_static(j["k"].as_str().unwrap()),
            c: j["c"].as_array().map(|a| a.iter().map(C::from_json).collect()).unwrap_or_default(),
            i: j["i"].as_i64().unwrap_or(0),
            e: j["e"].as_i64().unwrap_or(0),
            s: j["s"].as_str().unwrap_or("").to_string(),
            nm: j["nm"].as_array().map(|a| a.iter().map(|n| n["s"].as_str().unwrap().to_string()).collect()).unwrap_or_default(),
        }
    }
    pub fn size(&self) -> usize {
        1 + self.c.iter().map(|c| c.size()).sum::<usize>()
    }
}

const KINDS: &[&str] = &[
    "Add", "Sub", "Mul", "Div", "Less", "LessOrEq", "Equals", "NotEquals", "And", "Or", "Xor", "Not", "Return", "ScalarNil",
    "CreateTable", "Abort", "Len", "SetProperty", "GetProperty", "ScalarInt", "ScalarFloat", "StringLiteral", "CallNative",
    "IfTrue", "IfFalse", "IfElse", "Call", "Function", "NativeFunction", "SetGlobalVar", "SetVar", "ReadVar", "Repeat", "While",
    "ForEach", "CompositeCard", "DynamicCall", "Get", "AppendTable", "PopTable", "Array", "Closure", "Comment",
];
fn kind_static(k: &str) -> &'static str {
    KINDS.iter().find(|x| **x == k).copied().unwrap_or_else(|| panic!("unknown card kind {k}"))
}

fn split_name(full: &str) -> (Vec<String>, String) {
    let mut parts: Vec<String> = full.split('.').map(|x| x.to_string()).collect();
    let name = parts.pop().unwrap();
    (parts, name)
}

impl P {
    /// index of every function inside its own module, in the order to_module emits them
    fn layout(&self) -> Vec<(Vec<String>, usize)> {
        let mut counts: std::collections::BTreeMap<Vec<String>, usize> = Default::default();
        self.fns
            .iter()
            .map(|f| {
                let (ns, _) = split_name(&f.name);
                let e = counts.entry(ns.clone()).or_insert(0);
                let fi = *e;
                *e += 1;
                (ns, fi)
            })
            .collect()
    }
    pub fn to_json(&self) -> J {
        let lay = self.layout();
        json!({
            "fns": self.fns.iter().zip(lay.iter()).map(|(f, (ns, fi))| json!({
                "name": f.name, "params": f.params, "body": f.body.iter().map(|c| c.to_json()).collect::<Vec<_>>(),
                "fi": fi, "ns": ns})).collect::<Vec<_>>(),
            "natives": self.natives.iter().map(|n| json!({"name": n.name, "arity": n.arity, "beh": n.beh, "types": n.types})).collect::<Vec<_>>(),
        })
    }
    pub fn from_json(j: &J) -> P {
        P {
            fns: j["fns"].as_array().unwrap().iter().map(|f| F {
                name: f["name"].as_str().unwrap().to_string(),
                params: f["params"].as_array().unwrap().iter().map(|p| p.as_str().unwrap().to_string()).collect(),
                body: f["body"].as_array().unwrap().iter().map(C::from_json).collect(),
            }).collect(),
            natives: j["natives"].as_array().map(|a| a.iter().map(|n| Native {
                name: n["name"].as_str().unwrap().to_string(),
                arity: n["arity"].as_u64().unwrap() as usize,
                beh: match n["beh"].as_str().unwrap() { "log" => "log", "id" => "id", "fail" => "fail", "typed" => "typed", "call" => "call", other => panic!("beh {other}") },
                types: vec![],
            }).collect()).unwrap_or_default(),
            imports: j["imports"].as_array().map(|a| a.iter().map(|e| (e[0].as_str().unwrap().to_string(),
                e[1].as_array().unwrap().iter().map(|x| x.as_str().unwrap().to_string()).collect())).collect()).unwrap_or_default(),
        }
    }
    pub fn size(&self) -> usize {
        self.fns.iter().map(|f| f.body.iter().map(|c| c.size()).sum::<usize>()).sum()
    }

    // ------------------------------------------------------------ the crate's Module
    pub fn to_module(&self) -> Module {
        let mut root = Module::default();
        for f in &self.fns {
            let (ns, name) = split_name(&f.name);
            let mut m = &mut root;
            for seg in ns {
                let pos = m.submodules.iter().position(|(n, _)| *n == seg);
                let pos = match pos {
                    Some(p) => p,
                    None => {
                        m.submodules.push((seg.clone(), Module::default()));
                        m.submodules.len() - 1
                    }
                };
                m = &mut m.submodules[pos].1;
            }
            m.functions.push((name, Function { arguments: f.params.clone(), cards: f.body.iter().map(to_card).collect() }));
        }
        for (path, imps) in &self.imports {
            let m = if path.is_empty() { Some(&mut root) } else { root.lookup_submodule_mut(path) };
            if let Some(m) = m {
                m.imports = imps.clone();
            }
        }
        root
    }
}

fn opt(s: &str) -> Option<String> {
    // a loop variable that is present but has the empty name (the compiler has to refuse it)
    if s == "<empty>" {
        return Some(String::new());
    }
    if s.is_empty() {
        None
    } else {
        Some(s.to_string())
    }
}

pub fn dyadic_to_f64(n: i64, e: i64) -> f64 {
    (n as f64) / ((1u64 << e) as f64)
}

pub fn to_card(c: &C) -> Card {
    let ch = |i: usize| to_card(&c.c[i]);
    let b2 = || Box::new([ch(0), ch(1)]);
    let b3 = || Box::new([ch(0), ch(1), ch(2)]);
    let un = || UnaryExpression { card: Box::new(ch(0)) };
    let all = || c.c.iter().map(to_card).collect::<Vec<_>>();
    let body = match c.k {
        "Add" => CardBody::Add(b2()),
        "Sub" => CardBody::Sub(b2()),
        "Mul" => CardBody::Mul(b2()),
        "Div" => CardBody::Div(b2()),
        "Less" => CardBody::Less(b2()),
        "LessOrEq" => CardBody::LessOrEq(b2()),
        "Equals" => CardBody::Equals(b2()),
        "NotEquals" => CardBody::NotEquals(b2()),
        "And" => CardBody::And(b2()),
        "Or" => CardBody::Or(b2()),
        "Xor" => CardBody::Xor(b2()),
        "Not" => CardBody::Not(un()),
        "Return" => CardBody::Return(un()),
        "Len" => CardBody::Len(un()),
        "PopTable" => CardBody::PopTable(un()),
        "ScalarNil" => CardBody::ScalarNil,
        "CreateTable" => CardBody::CreateTable,
        "Abort" => CardBody::Abort,
        "SetProperty" => CardBody::SetProperty(b3()),
        "GetProperty" => CardBody::GetProperty(b2()),
        "Get" => CardBody::Get(b2()),
        "AppendTable" => CardBody::AppendTable(b2()),
        // s = "big": 2^53 + i (integers that f64 cannot tell apart; see deep())
        "ScalarInt" => CardBody::ScalarInt(if c.s == "big" { (1i64 << 53) + c.i } else { c.i }),
        "ScalarFloat" => CardBody::ScalarFloat(match c.s.as_str() {
            "nan" => f64::NAN,
            "inf" => f64::INFINITY,
            "-inf" => f64::NEG_INFINITY,
            // non-zero reals far below any tolerance (only their truthiness is specified)
            "tiny" => 2f64.powi(-60),
            "-tiny" => -(2f64.powi(-200)),
            // i * 2^-60: distinct reals closer to each other than any tolerance (equality, ordering and truthiness are specified)
            "sm" => c.i as f64 * 2f64.powi(-60),
            _ => dyadic_to_f64(c.i, c.e),
        }),
        "StringLiteral" => CardBody::StringLiteral(c.s.clone()),
        "CallNative" => CardBody::CallNative(Box::new(CallNode { name: c.s.clone(), args: Arguments(all()) })),
        "IfTrue" => CardBody::IfTrue(b2()),
        "IfFalse" => CardBody::IfFalse(b2()),
        "IfElse" => CardBody::IfElse(b3()),
        "While" => CardBody::While(b2()),
        // c.s is the full name used by the reference semantics; nm[0], when present, is the name
        // written at the call site (imports / relative names), otherwise the full name is used
        "Call" => CardBody::Call(Box::new(StaticJump {
            args: Arguments(all()),
            function_name: c.nm.first().cloned().unwrap_or_else(|| c.s.clone()),
        })),
        "Function" => CardBody::Function(c.nm.first().cloned().unwrap_or_else(|| c.s.clone())),
        "NativeFunction" => CardBody::NativeFunction(c.s.clone()),
        "SetGlobalVar" => CardBody::SetGlobalVar(Box::new(SetVar { name: c.nm.join("."), value: ch(0) })),
        "SetVar" => CardBody::SetVar(Box::new(SetVar { name: c.nm.join("."), value: ch(0) })),
        "ReadVar" => CardBody::ReadVar(c.nm.join(".")),
        "Repeat" => CardBody::Repeat(Box::new(Repeat { i: opt(&c.nm[0]), n: ch(0), body: ch(1) })),
        "ForEach" => CardBody::ForEach(Box::new(ForEach {
            i: opt(&c.nm[0]),
            k: opt(&c.nm[1]),
            v: opt(&c.nm[2]),
            iterable: Box::new(ch(0)),
            body: Box::new(ch(1)),
        })),
        "CompositeCard" => CardBody::CompositeCard(Box::new(CompositeCard { ty: "block".into(), cards: all() })),
        "DynamicCall" => CardBody::DynamicCall(Box::new(DynamicJump {
            function: ch(0),
            args: Arguments(c.c[1..].iter().map(to_card).collect()),
        })),
        "Array" => CardBody::Array(all()),
        "Closure" => CardBody::Closure(Box::new(Function { arguments: c.nm.clone(), cards: all() })),
        "Comment" => CardBody::Comment(c.s.clone()),
        other => panic!("unknown card kind {other}"),
    };
    Card { id: CardId(0), body }
}

// ---------------------------------------------------------------- observation
pub fn nilv() -> J {
    json!({"t":"nil","i":0,"e":0,"s":""})
}

pub fn real_to_json(r: f64) -> J {
    let tok = |s: &str| json!({"t":"real","i":0,"e":0,"s":s});
    if r.is_nan() {
        return tok("nan");
    }
    if r.is_infinite() {
        return tok(if r > 0.0 { "inf" } else { "-inf" });
    }
    if r == 0.0 {
        return json!({"t":"real","i":0,"e":0,"s":""});
    }
    // k * 2^-60 with a small k that is not an ordinary modelled dyadic (see the "sm" literal)
    let scaled = r * 2f64.powi(60);
    if r.abs() < 2f64.powi(-40) && scaled.fract() == 0.0 && scaled.abs() < (1u64 << 20) as f64 {
        return json!({"t":"real","i": scaled as i64,"e":0,"s":"sm"});
    }
    let bits = r.to_bits();
    let sign: i128 = if bits >> 63 == 1 { -1 } else { 1 };
    let exp = ((bits >> 52) & 0x7ff) as i64;
    let frac = (bits & ((1u64 << 52) - 1)) as i128;
    let (mut m, mut e2) = if exp == 0 { (frac, -1074i64) } else { (frac | (1i128 << 52), exp - 1075) };
    while m % 2 == 0 {
        m /= 2;
        e2 += 1;
    }
    // value = sign * m * 2^e2
    if e2 >= 0 {
        if e2 > 40 || (m << e2) >= (1i128 << 30) {
            return tok("big");
        }
        json!({"t":"real","i": (sign * (m << e2)) as i64,"e":0,"s":""})
    } else {
        if -e2 > 40 || m >= (1i128 << 30) {
            return tok("big");
        }
        json!({"t":"real","i": (sign * m) as i64,"e": -e2,"s":""})
    }
}

pub fn deep(v: Value, depth: usize) -> J {
    use cao_lang::vm::runtime::cao_lang_object::CaoLangObjectBody as B;
    match v {
        Value::Nil => nilv(),
        // integers around 2^53 are reported as an offset from 2^53 (e = 53): the specification side works with 32-bit integers
        Value::Integer(i) if i > (1i64 << 53) - 4096 && i < (1i64 << 53) + 4096 => json!({"t":"int","i":i - (1i64 << 53),"e":53,"s":""}),
        Value::Integer(i) => json!({"t":"int","i":i,"e":0,"s":""}),
        Value::Real(r) => real_to_json(r),
        Value::Object(o) => unsafe {
            match &o.as_ref().body {
                B::String(s) => json!({"t":"str","i":s.len(),"e":0,"s":s.as_str()}),
                B::Table(t) => {
                    if depth > 12 {
                        return json!({"t":"cycle","i":0,"e":0,"s":""});
                    }
                    let e: Vec<J> = t.iter().map(|(k, v)| json!([deep(*k, depth + 1), deep(*v, depth + 1)])).collect();
                    json!({"t":"tab","e":e})
                }
                B::Function(_) => json!({"t":"fn","i":0,"e":0,"s":""}),
                B::NativeFunction(_) => json!({"t":"nat","i":0,"e":0,"s":""}),
                B::Closure(_) => json!({"t":"clo","i":0,"e":0,"s":""}),
                B::Upvalue(_) => json!({"t":"upvalue","i":0,"e":0,"s":""}),
            }
        },
    }
}

#[derive(Default)]
pub struct Host {
    pub log: Rc<RefCell<Vec<J>>>,
}

fn logcall(vm: &mut Vm<Host>, name: &str, args: &[Value]) {
    let rec = json!({"name": name, "args": args.iter().map(|a| deep(*a, 0)).collect::<Vec<_>>()});
    vm.get_aux_mut().log.borrow_mut().push(rec);
}

macro_rules! host_fns {
    ($name:expr, $vm:expr, $beh:expr, $arity:expr) => {{
        let name: String = $name.to_string();
        let beh: &'static str = $beh;
        let ret = move |vm: &mut Vm<Host>, args: &[Value]| -> Result<Value, ExecutionErrorPayload> {
            logcall(vm, &name, args);
            match beh {
                "log" => Ok(Value::Nil),
                "id" => Ok(args[0]),
                _ => Err(ExecutionErrorPayload::invalid_argument("host function failed on purpose")),
            }
        };
        match $arity {
            0 => $vm.register_native_function($name, move |vm: &mut Vm<Host>| ret(vm, &[])),
            1 => $vm.register_native_function($name, move |vm: &mut Vm<Host>| {
                let a = vm.stack_pop();
                ret(vm, &[a])
            }),
            2 => $vm.register_native_function($name, move |vm: &mut Vm<Host>| {
                let b = vm.stack_pop();
                let a = vm.stack_pop();
                ret(vm, &[a, b])
            }),
            3 => $vm.register_native_function($name, move |vm: &mut Vm<Host>| {
                let c = vm.stack_pop();
                let b = vm.stack_pop();
                let a = vm.stack_pop();
                ret(vm, &[a, b, c])
            }),
            _ => panic!("native arity not supported"),
        }
    }};
}

// ---- typed host functions: real fn pointers going through the crate's VmFunction1..4 adapters
fn lg(vm: &mut Vm<Host>, name: &str, args: Vec<J>) {
    vm.get_aux_mut().log.borrow_mut().push(json!({"name": name, "args": args}));
}
fn jint(i: i64) -> J {
    json!({"t":"int","i":i,"e":0,"s":""})
}
fn jstr(s: &str) -> J {
    json!({"t":"str","i":s.len(),"e":0,"s":s})
}
fn jtab(t: &CaoLangTable) -> J {
    J::Object(json!({"t":"tab","e": t.iter().map(|(k, v)| json!([deep(*k, 1), deep(*v, 1)])).collect::<Vec<_>>()}).as_object().unwrap().clone())
}
type R = Result<Value, ExecutionErrorPayload>;
fn t_i(vm: &mut Vm<Host>, a: i64) -> R { lg(vm, "t_i", vec![jint(a)]); Ok(Value::Integer(a)) }
fn t_f(vm: &mut Vm<Host>, a: f64) -> R { lg(vm, "t_f", vec![real_to_json(a)]); Ok(Value::Real(a)) }
fn t_b(vm: &mut Vm<Host>, a: bool) -> R { lg(vm, "t_b", vec![jint(a as i64)]); Ok(Value::Integer(a as i64)) }
fn t_s(vm: &mut Vm<Host>, a: &str) -> R { lg(vm, "t_s", vec![jstr(a)]); Ok(Value::Integer(a.len() as i64)) }
fn t_v(vm: &mut Vm<Host>, a: Value) -> R { lg(vm, "t_v", vec![deep(a, 0)]); Ok(a) }
fn t_t(vm: &mut Vm<Host>, a: &CaoLangTable) -> R { lg(vm, "t_t", vec![jtab(a)]); Ok(Value::Integer(a.len() as i64)) }
fn t_n(vm: &mut Vm<Host>, a: Nilable<i64>) -> R {
    lg(vm, "t_n", vec![a.0.map(jint).unwrap_or_else(nilv)]);
    Ok(Value::Integer(a.0.unwrap_or(-1)))
}
fn t_ns(vm: &mut Vm<Host>, a: Nilable<&str>) -> R {
    lg(vm, "t_ns", vec![a.0.map(jstr).unwrap_or_else(nilv)]);
    Ok(Value::Integer(a.0.map(|s| s.len() as i64).unwrap_or(-1)))
}
fn t_ins(vm: &mut Vm<Host>, a: i64, b: Nilable<&str>) -> R {
    lg(vm, "t_ins", vec![jint(a), b.0.map(jstr).unwrap_or_else(nilv)]);
    Ok(Value::Integer(a))
}
fn t_if(vm: &mut Vm<Host>, a: i64, b: f64) -> R { lg(vm, "t_if", vec![jint(a), real_to_json(b)]); Ok(Value::Integer(a)) }
fn t_sv(vm: &mut Vm<Host>, a: &str, b: Value) -> R { lg(vm, "t_sv", vec![jstr(a), deep(b, 0)]); Ok(Value::Integer(a.len() as i64)) }
fn t_ifb(vm: &mut Vm<Host>, a: i64, b: f64, c: bool) -> R { lg(vm, "t_ifb", vec![jint(a), real_to_json(b), jint(c as i64)]); Ok(Value::Integer(a)) }
fn t_vsi(vm: &mut Vm<Host>, a: Value, b: &str, c: i64) -> R { lg(vm, "t_vsi", vec![deep(a, 0), jstr(b), jint(c)]); Ok(a) }
fn t_ifbs(vm: &mut Vm<Host>, a: i64, b: f64, c: bool, d: &str) -> R {
    lg(vm, "t_ifbs", vec![jint(a), real_to_json(b), jint(c as i64), jstr(d)]);
    Ok(Value::Integer(a))
}
fn t_svti(vm: &mut Vm<Host>, a: &str, b: Value, c: &CaoLangTable, d: i64) -> R {
    lg(vm, "t_svti", vec![jstr(a), deep(b, 0), jtab(c), jint(d)]);
    Ok(Value::Integer(a.len() as i64))
}
/// re-entry: push the arguments, run the function value, report the balance of both stacks
fn reenter(vm: &mut Vm<Host>, name: &str, f: Value, args: &[Value]) -> R {
    let r0 = vm.runtime_data.verif_residue();
    let (sh, ch) = (r0.value_stack_len as i64, r0.call_stack_len as i64);
    for a in args {
        vm.stack_push(*a)?;
    }
    let r = vm.run_function(f)?;
    let r1 = vm.runtime_data.verif_residue();
    let (sh2, ch2) = (r1.value_stack_len as i64, r1.call_stack_len as i64);
    lg(vm, name, vec![deep(r, 0), jint(sh2 - sh), jint(ch2 - ch)]);
    Ok(r)
}
fn call0(vm: &mut Vm<Host>, f: Value) -> R { reenter(vm, "call0", f, &[]) }
fn call1(vm: &mut Vm<Host>, f: Value, a: Value) -> R { reenter(vm, "call1", f, &[a]) }
fn call2(vm: &mut Vm<Host>, f: Value, a: Value, b: Value) -> R { reenter(vm, "call2", f, &[a, b]) }

/// like call0 / call1, but the host function handles a failure of the callee: it logs the stack balance it finds afterwards
/// and carries on with -1 as the callee's result
fn try_reenter(vm: &mut Vm<Host>, name: &str, f: Value, args: &[Value]) -> R {
    let r0 = vm.runtime_data.verif_residue();
    let (sh, ch) = (r0.value_stack_len as i64, r0.call_stack_len as i64);
    for a in args {
        vm.stack_push(*a)?;
    }
    let r = match vm.run_function(f) {
        Ok(v) => v,
        Err(_) => Value::Integer(-1),
    };
    let r1 = vm.runtime_data.verif_residue();
    let (sh2, ch2) = (r1.value_stack_len as i64, r1.call_stack_len as i64);
    lg(vm, name, vec![deep(r, 0), jint(sh2 - sh), jint(ch2 - ch)]);
    Ok(r)
}
fn try0(vm: &mut Vm<Host>, f: Value) -> R { try_reenter(vm, "try0", f, &[]) }
fn try1(vm: &mut Vm<Host>, f: Value, a: Value) -> R { try_reenter(vm, "try1", f, &[a]) }

pub fn register_typed(vm: &mut Vm<Host>) {
    vm.register_native_function("try0", into_f1(try0)).unwrap();
    vm.register_native_function("try1", into_f2(try1)).unwrap();
    vm.register_native_function("t_i", into_f1(t_i)).unwrap();
    vm.register_native_function("t_f", into_f1(t_f)).unwrap();
    vm.register_native_function("t_b", into_f1(t_b)).unwrap();
    vm.register_native_function("t_s", into_f1(t_s)).unwrap();
    vm.register_native_function("t_v", into_f1(t_v)).unwrap();
    vm.register_native_function("t_t", into_f1(t_t)).unwrap();
    vm.register_native_function("t_n", into_f1(t_n)).unwrap();
    vm.register_native_function("t_ns", into_f1(t_ns)).unwrap();
    vm.register_native_function("t_ins", into_f2(t_ins)).unwrap();
    vm.register_native_function("t_if", into_f2(t_if)).unwrap();
    vm.register_native_function("t_sv", into_f2(t_sv)).unwrap();
    vm.register_native_function("t_ifb", into_f3(t_ifb)).unwrap();
    vm.register_native_function("t_vsi", into_f3(t_vsi)).unwrap();
    vm.register_native_function("t_ifbs", into_f4(t_ifbs)).unwrap();
    vm.register_native_function("t_svti", into_f4(t_svti)).unwrap();
    vm.register_native_function("call0", into_f1(call0)).unwrap();
    vm.register_native_function("call1", into_f2(call1)).unwrap();
    vm.register_native_function("call2", into_f3(call2)).unwrap();
}

/// {name, inner, param} of a TaskFailure (outermost task, innermost rejected parameter)
pub fn task_json(p: &ExecutionErrorPayload) -> J {
    if let ExecutionErrorPayload::TaskFailure { name, error } = p {
        let inner = payload_kind(error);
        let msg = format!("{}", error);
        let param = msg.split("input #").nth(1).and_then(|x| x.split(':').next()).and_then(|x| x.trim().parse::<i64>().ok()).unwrap_or(0);
        json!({"name": name, "inner": inner, "param": param})
    } else {
        json!({"name": "", "inner": "", "param": 0})
    }
}

pub fn payload_kind(p: &ExecutionErrorPayload) -> String {
    let d = format!("{:?}", p);
    d.split(|c: char| !c.is_alphanumeric()).next().unwrap_or("").to_string()
}

pub fn trace_json(t: &[Trace]) -> J {
    // Trace fields are crate-private; its Display form is `ns.ns.F.i.j`; use serde instead
    J::Array(
        t.iter()
            .map(|tr| {
                let v = serde_json::to_value(tr).unwrap();
                json!({"ns": v["namespace"], "f": v["index"]["function"], "p": v["index"]["card_index"]["indices"]})
            })
            .collect(),
    )
}

pub struct RunCfg {
    pub max_instr: u64,
}

impl Default for RunCfg {
    fn default() -> Self {
        RunCfg { max_instr: 2_000_000 }
    }
}

/// compile + run + observe
pub fn observe(p: &P, cfg: &RunCfg) -> J {
    let module = p.to_module();
    let compiled = match compile(module, None) {
        Ok(c) => c,
        Err(e) => {
            let kind = format!("{:?}", e.payload);
            let kind = kind.split(|c: char| !c.is_alphanumeric()).next().unwrap_or("").to_string();
            let loc = e.loc.as_ref().map(|l| trace_json(std::slice::from_ref(l))).unwrap_or(json!([]));
            return json!({"st": "cerr", "kind": kind, "globals": {}, "log": [], "trace": loc, "task": {"name":"","inner":"","param":0}});
        }
    };
    observe_compiled(p, &compiled, cfg)
}

pub fn make_vm(p: &P, cfg: &RunCfg) -> Vm<'static, Host> {
    let mut vm = Vm::new(Host::default()).unwrap().with_max_iter(cfg.max_instr);
    for n in &p.natives {
        if n.beh == "typed" || n.beh == "call" {
            continue;
        }
        host_fns!(n.name.as_str(), vm, n.beh, n.arity).unwrap();
    }
    register_typed(&mut vm);
    vm
}

pub fn observe_compiled(p: &P, compiled: &CaoCompiledProgram, cfg: &RunCfg) -> J {
    let mut vm = make_vm(p, cfg);
    let res = vm.run(compiled);
    observation(&vm, compiled, &res)
}

pub fn observation(vm: &Vm<Host>, compiled: &CaoCompiledProgram, res: &Result<(), ExecutionError>) -> J {
    let mut globals = Map::new();
    for (_, name) in compiled.variables.names.iter() {
        let v = match vm.read_var_by_name(name, &compiled.variables) {
            Some(v) => deep(v, 0),
            None => json!({"t":"unset"}),
        };
        globals.insert(name.clone(), v);
    }
    let log = J::Array(vm.get_aux().log.borrow().clone());
    match res {
        Ok(()) => json!({"st":"ok","kind":"","globals":globals,"log":log,"trace":[],"task":{"name":"","inner":"","param":0}}),
        Err(e) => json!({"st":"err","kind":payload_kind(&e.payload),"globals":globals,"log":log,"trace":trace_json(&e.trace),
                         "task": task_json(&e.payload)}),
    }
}
