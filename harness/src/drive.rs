//! Drivers that compile + run card programs and record what the crate did, for validation by
//! spec/CardSemCheck.tla.
use crate::cards::*;
use crate::gen::*;
use crate::util::*;
use serde_json::{json, Value as J};

pub fn record(id: usize, profile: &str, p: &P, obs: J, cmp_loc: bool) -> J {
    json!({"id": id, "profile": profile, "prog": p.to_json(), "obs": obs, "cmp_loc": cmp_loc})
}

/// cards-drive --profile P --seed S --n N --out FILE [--start-case K --append 1]
pub fn drive(args: &[String]) {
    let seed = arg_num(args, "--seed", 1);
    let n = arg_num(args, "--n", 100) as usize;
    let profile = arg_val(args, "--profile").unwrap_or("default").to_string();
    let out = arg_val(args, "--out").expect("--out");
    let start = arg_num(args, "--start-case", 0) as usize;
    let append = arg_num(args, "--append", 0) == 1;
    let max_size = arg_num(args, "--max-size", 400) as usize;
    let mut w = TraceWriter::open(out, append, 10_000);
    let cfg = RunCfg::default();
    for id in start..n {
        let mut rng = Rng::new(seed.wrapping_mul(7_919_117).wrapping_add(id as u64));
        let prof = Profile::named(&profile);
        let mut p = Gen::new(&mut rng, prof.clone()).program();
        let mut tries = 0;
        while p.size() > max_size && tries < 20 {
            p = Gen::new(&mut rng, prof.clone()).program();
            tries += 1;
        }
        let pj = json!({"id": id, "profile": profile, "prog": p.to_json()});
        w.begin(id, &pj);
        let obs = match guarded(|| observe(&p, &cfg)) {
            Ok(o) => o,
            Err(msg) => json!({"st": "panic", "kind": msg, "globals": {}, "log": [], "trace": []}),
        };
        w.end(record(id, &profile, &p, obs, false));
    }
    w.finish();
}

/// cards-run <cases.ndjson> (lines {id, prog}) -> RESULT lines carrying the full record
pub fn run_case(case: &J) -> J {
    let p = P::from_json(&case["prog"]);
    let obs = observe(&p, &RunCfg::default());
    json!({"status": "ok", "steps": 1, "record": {"id": case["id"], "profile": case["profile"], "prog": case["prog"],
           "obs": obs, "cmp_loc": case["cmp_loc"].as_bool().unwrap_or(false)}})
}

/// cards-show --profile P --seed S --id I : print one generated program (debugging aid)
pub fn show(args: &[String]) {
    let seed = arg_num(args, "--seed", 1);
    let id = arg_num(args, "--id", 0);
    let profile = arg_val(args, "--profile").unwrap_or("default").to_string();
    let mut rng = Rng::new(seed.wrapping_mul(7_919_117).wrapping_add(id));
    let p = Gen::new(&mut rng, Profile::named(&profile)).program();
    println!("{}", serde_json::to_string_pretty(&p.to_json()).unwrap());
    println!("{}", observe(&p, &RunCfg::default()));
}
