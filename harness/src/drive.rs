//! Drivers that compile + run card programs and record what the crate did, for validation by
//! spec/CardSemCheck.tla.
use crate::cards::*;
use crate::gen::*;
use crate::util::*;
use serde_json::{json, Value as J};

pub fn record(id: usize, profile: &str, p: &P, obs: J, cmp_loc: bool) -> J {
    json!({"id": id, "profile": profile, "prog": p.to_json(), "obs": obs, "cmp_loc": cmp_loc})
}

/// cards-drive --profile P --seed S --n N --out FILE [--start-case K --append 1]
pub fn drive(args: &[String]) {
    let seed = arg_num(args, "--seed", 1);
    let n = arg_num(args, "--n", 100) as usize;
    let profile = arg_val(args, "--profile").unwrap_or("default").to_string();
    let out = arg_val(args, "--out").expect("--out");
    let start = arg_num(args, "--start-case", 0) as usize;
    let append = arg_num(args, "--append", 0) == 1;
    let max_size = arg_num(args, "--max-size", 400) as usize;
    let mut w = TraceWriter::open(out, append, 10_000);
    let cfg = RunCfg::default();
    for id in start..n {
        let mut rng = Rng::new(seed.wrapping_mul(7_919_117).wrapping_add(id as u64));
        let prof = Profile::named(&profile);
        let mut p = Gen::new(&mut rng, prof.clone()).program();
        let mut tries = 0;
        while p.size() > max_size && tries < 20 {
            p = Gen::new(&mut rng, prof.clone()).program();
            tries += 1;
        }
        let mut expect_cerr = None;
        if profile == "cerrors" {
            let (kind, fi, path) = plant_compile_error(&mut p, &mut rng);
            let pj = p.to_json();
            expect_cerr = Some(json!({"kind": kind, "at": {"ns": pj["fns"][fi]["ns"], "f": pj["fns"][fi]["fi"], "p": path}}));
        }
        let pj = json!({"id": id, "profile": profile, "prog": p.to_json()});
        w.begin(id, &pj);
        let obs = match guarded(|| observe(&p, &cfg)) {
            Ok(o) => o,
            Err(msg) => json!({"st": "panic", "kind": msg, "globals": {}, "log": [], "trace": []}),
        };
        let mut rec = record(id, &profile, &p, obs, profile == "errors");
        if let Some(e) = expect_cerr {
            rec["expect_cerr"] = e;
        }
        w.end(rec);
    }
    w.finish();
}

/// plant one card the compiler must reject; returns (error kind, [function position, path])
fn plant_compile_error(p: &mut P, rng: &mut Rng) -> (String, usize, Vec<u64>) {
    // `sub`: the failing card is this child of the planted statement
    let (kind, bad, sub): (&str, C, Option<u64>) = match rng.below(6) {
        // a for-each whose loop variable has the empty name: the for-each card itself is at fault, not its body
        4 => {
            let mut names = ["ei", "ek", "ev"];
            names[rng.below(3)] = "<empty>";
            ("EmptyVariable", foreach(names[0], names[1], names[2], card("CreateTable", vec![]), block(vec![setg("g0", int(1))])), None)
        }
        5 => {
            let mut names = ["", "", ""];
            names[rng.below(3)] = "<empty>";
            ("EmptyVariable", foreach(names[0], names[1], names[2], read("no_such_table_needed"), block(vec![])), None)
        }
        0 => ("InvalidJump", call("no_such_function", vec![]), None),
        1 => ("InvalidJump", setg("g0", named("Function", "no.such.fn", vec![])), Some(0)),
        2 => ("EmptyVariable", setv("", int(1)), None),
        _ => ("EmptyVariable", setg("", int(1)), None),
    };
    let fi = rng.below(p.fns.len());
    let body = &mut p.fns[fi].body;
    let pos = rng.below(body.len() + 1);
    // sometimes go one level down into a block / loop body / branch
    if pos < body.len() && rng.chance(1, 2) {
        let st = &mut body[pos];
        let slot = match st.k {
            "IfTrue" | "IfFalse" | "While" | "Repeat" | "ForEach" => Some(1),
            "IfElse" => Some(1 + rng.below(2)),
            _ => None,
        };
        if let Some(ci) = slot {
            if st.c[ci].k == "CompositeCard" {
                let n = st.c[ci].c.len();
                let q = rng.below(n + 1);
                st.c[ci].c.insert(q, bad);
                let mut path = vec![pos as u64, ci as u64, q as u64];
                path.extend(sub);
                return (kind.to_string(), fi, path);
            }
        }
    }
    body.insert(pos, bad);
    let mut path = vec![pos as u64];
    path.extend(sub);
    (kind.to_string(), fi, path)
}

/// cards-run <cases.ndjson> (lines {id, prog}) -> RESULT lines carrying the full record
pub fn run_case(case: &J) -> J {
    let p = P::from_json(&case["prog"]);
    let obs = observe(&p, &RunCfg::default());
    json!({"status": "ok", "steps": 1, "record": {"id": case["id"], "profile": case["profile"], "prog": case["prog"],
           "obs": obs, "cmp_loc": case["cmp_loc"].as_bool().unwrap_or(false)}})
}

/// cards-show --profile P --seed S --id I : print one generated program (debugging aid)
pub fn show(args: &[String]) {
    let seed = arg_num(args, "--seed", 1);
    let id = arg_num(args, "--id", 0);
    let profile = arg_val(args, "--profile").unwrap_or("default").to_string();
    let mut rng = Rng::new(seed.wrapping_mul(7_919_117).wrapping_add(id));
    let p = Gen::new(&mut rng, Profile::named(&profile)).program();
    println!("{}", serde_json::to_string_pretty(&p.to_json()).unwrap());
    println!("{}", observe(&p, &RunCfg::default()));
}

/// host-register-names --out FILE : which names can a host register?
pub fn register_names(args: &[String]) {
    use std::io::Write;
    let out = arg_val(args, "--out").expect("--out");
    let mut w = std::io::BufWriter::new(std::fs::File::create(out).unwrap());
    for name in ["__min", "__max", "__x", "__", "_x", "x__", "a", "_", "a__b", "___", "log", "__sort", "__to_array", "filter", "std"] {
        let mut vm = cao_lang::prelude::Vm::new(()).unwrap();
        let f = |_vm: &mut cao_lang::prelude::Vm<()>| -> Result<cao_lang::prelude::Value, cao_lang::prelude::ExecutionErrorPayload> {
            Ok(cao_lang::prelude::Value::Nil)
        };
        let f = move |vm: &mut cao_lang::prelude::Vm<()>| -> Result<cao_lang::prelude::Value, cao_lang::prelude::ExecutionErrorPayload> {
            let _ = f(vm);
            Ok(cao_lang::prelude::Value::Integer(777))
        };
        let accepted = vm.register_native_function(name, f).is_ok();
        // what a script sees afterwards: is the name callable, and does the library still do its own work?
        let p = P { fns: vec![F { name: "main".into(), params: vec![], body: vec![
                        setv("t", card("Array", vec![int(1), int(3), int(2)])),
                        setg("v", card("GetProperty", vec![call("std.max", vec![read("t")]), strlit("value")])),
                        setg("s", card("Len", vec![call("std.sorted", vec![read("t")])])),
                        setg("mn", card("GetProperty", vec![call("std.min", vec![read("t")]), strlit("value")])),
                        setg("r", native(name, vec![]))] }], natives: vec![], imports: vec![] };
        let (mut callable, mut lib_ok) = (false, false);
        if let Ok(c) = cao_lang::compiler::compile(p.to_module(), None) {
            let res = vm.run(&c);
            let rd = |n: &str| vm.read_var_by_name(n, &c.variables);
            lib_ok = rd("v") == Some(cao_lang::prelude::Value::Integer(3)) && rd("s") == Some(cao_lang::prelude::Value::Integer(3))
                && rd("mn") == Some(cao_lang::prelude::Value::Integer(1));
            callable = res.is_ok() && rd("r") == Some(cao_lang::prelude::Value::Integer(777));
        }
        let chars: Vec<String> = name.chars().map(|c| c.to_string()).collect();
        writeln!(w, "{}", json!({"chars": chars, "accepted": accepted, "callable": callable, "lib_ok": lib_ok})).unwrap();
    }
}
