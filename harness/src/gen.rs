//! Seeded generator of well-scoped card programs (DESIGN section 4):
//! every value slot holds a value-producing card, the first assignment of a local is a statement
//! at function-body or loop-body level, globals are read only after a definite assignment, calls
//! supply exactly the declared number of arguments, loops terminate by construction.
use crate::cards::*;
use crate::util::Rng;

#[derive(Clone, Copy, Debug, PartialEq, Eq)]
pub enum Ty {
    Int,
    Real,
    Str,
    Tab,
    Nil,
    /// function value taking n arguments and returning an integer
    Fun(usize),
}

#[derive(Clone, Debug)]
pub struct Var {
    pub name: String,
    pub ty: Ty,
}

#[derive(Clone, Debug)]
pub struct Sig {
    pub name: String,
    pub params: Vec<Var>,
    pub ret: Ty,
}

#[derive(Clone, Debug)]
pub struct Profile {
    pub nfns: usize,
    pub max_depth: usize,
    pub stmts: usize,
    pub closures: usize, // weight 0..10
    pub tables: usize,
    pub mixed_coercions: usize,
    pub while_decl: bool,
    pub natives: bool,
    pub many_globals: bool,
    pub stdlib: usize,
    /// Array cards only where the operand stack is empty and execution is unconditional
    pub safe_arrays: bool,
    /// weight (0..100) of planting an error-provoking card
    pub errors: usize,
    /// weight (0..100) of statements calling typed / re-entering host functions
    pub host: usize,
    /// weight (0..100) of loops that allocate garbage (strings, tables, closures) with bounded live data
    pub garbage: usize,
    /// host functions that handle a failure of the function they call back (try0 / try1); outside the reference semantics,
    /// used by the budget and instruction-level drivers only
    pub try_natives: bool,
}

impl Profile {
    pub fn named(name: &str) -> Profile {
        let base = Profile { nfns: 3, max_depth: 3, stmts: 6, closures: 2, tables: 4, mixed_coercions: 2, while_decl: false,
                             natives: true, many_globals: false, stdlib: 0, safe_arrays: true, errors: 0, host: 0, garbage: 0, try_natives: false };
        match name {
            "basic" => Profile { nfns: 2, closures: 0, tables: 2, ..base },
            "calls" => Profile { nfns: 5, closures: 1, stmts: 5, ..base },
            "closures" => Profile { nfns: 3, closures: 8, stmts: 6, ..base },
            "tables" => Profile { tables: 9, closures: 1, ..base },
            "coerce" => Profile { mixed_coercions: 8, closures: 0, nfns: 1, ..base },
            "deep" => Profile { max_depth: 5, stmts: 8, nfns: 6, ..base },
            "globals" => Profile { many_globals: true, nfns: 2, ..base },
            "whiledecl" => Profile { while_decl: true, closures: 0, ..base },
            "arrays" => Profile { safe_arrays: false, tables: 8, ..base },
            "alloc" => Profile { garbage: 30, tables: 6, closures: 3, nfns: 2, stdlib: 3, ..base },
            "host" => Profile { host: 35, nfns: 3, closures: 4, stmts: 7, ..base },
            "hosttry" => Profile { host: 35, nfns: 3, closures: 4, stmts: 7, stdlib: 2, try_natives: true, ..base },
            "errors" => Profile { errors: 6, nfns: 3, closures: 3, ..base },
            "std" => Profile { stdlib: 8, tables: 6, closures: 3, ..base },
            _ => base,
        }
    }
}

struct Ctx {
    /// scopes of the function being generated (innermost last)
    scopes: Vec<Vec<Var>>,
    /// variables captured from enclosing functions (readable and writable)
    captured: Vec<Var>,
    in_fn: bool,
    ret: Ty,
    loop_depth: usize,
    /// > 0 inside an If branch or a While body (conditionally executed, no scope of its own)
    cond_depth: usize,
}

impl Ctx {
    fn visible(&self) -> Vec<Var> {
        let mut out = self.captured.clone();
        for s in &self.scopes {
            out.extend(s.iter().cloned());
        }
        // innermost binding of a name wins: keep the last occurrence of every name
        let mut seen = std::collections::HashSet::new();
        let mut res = vec![];
        for v in out.into_iter().rev() {
            if seen.insert(v.name.clone()) {
                res.push(v);
            }
        }
        res
    }
    fn of_ty(&self, ty: Ty) -> Vec<Var> {
        self.visible().into_iter().filter(|v| v.ty == ty).collect()
    }
    fn declare(&mut self, name: &str, ty: Ty) {
        self.scopes.last_mut().unwrap().push(Var { name: name.to_string(), ty });
    }
}

pub struct Gen<'a> {
    pub rng: &'a mut Rng,
    pub prof: Profile,
    sigs: Vec<Sig>,
    /// globals definitely assigned before any function can run
    globals: Vec<Var>,
    counter: usize,
}

const STRS: &[&str] = &["", "a", "ab", "key", "value", "xyz", "z\u{df}\u{20ac}"];

impl<'a> Gen<'a> {
    pub fn new(rng: &'a mut Rng, prof: Profile) -> Self {
        Gen { rng, prof, sigs: vec![], globals: vec![], counter: 0 }
    }
    /// a fresh name, or (sometimes) the name of a visible integer variable, which is then shadowed
    fn fresh_or_shadow(&mut self, cx: &Ctx, p: &str) -> String {
        let ints = cx.of_ty(Ty::Int);
        if !ints.is_empty() && self.rng.below(100) < 25 {
            return self.rng.pick(&ints).name.clone();
        }
        self.fresh(p)
    }
    fn fresh(&mut self, p: &str) -> String {
        self.counter += 1;
        format!("{p}{}", self.counter)
    }
    fn w(&mut self, n: usize) -> bool {
        self.rng.below(10) < n
    }

    // ------------------------------------------------------------ expressions
    fn lit(&mut self, ty: Ty) -> C {
        match ty {
            Ty::Int => int(self.rng.below(13) as i64 - 3),
            Ty::Real => {
                let n = self.rng.below(15) as i64 - 5;
                real(2 * n + 1, 1 + self.rng.below(2) as i64)
            }
            Ty::Str => strlit(*self.rng.pick(STRS)),
            Ty::Tab => card("CreateTable", vec![]),
            Ty::Nil => nil(),
            Ty::Fun(n) => self.closure_lit(&Ctx { scopes: vec![vec![]], captured: vec![], in_fn: true, ret: Ty::Int, loop_depth: 0, cond_depth: 0 }, n, 1),
        }
    }

    fn any_ty(&mut self) -> Ty {
        *self.rng.pick(&[Ty::Int, Ty::Int, Ty::Real, Ty::Str, Ty::Tab, Ty::Nil])
    }

    pub fn expr(&mut self, cx: &Ctx, ty: Ty, depth: usize) -> C {
        let aok = !self.prof.safe_arrays;
        self.expr_a(cx, ty, depth, aok)
    }
    /// expression at a position where the operand stack is empty (start of a statement)
    pub fn expr_top(&mut self, cx: &Ctx, ty: Ty, depth: usize) -> C {
        let aok = !self.prof.safe_arrays || cx.cond_depth == 0;
        self.expr_a(cx, ty, depth, aok)
    }
    /// `aok`: an Array card may be generated here
    pub fn expr_a(&mut self, cx: &Ctx, ty: Ty, depth: usize, aok: bool) -> C {
        if depth == 0 {
            let vs = cx.of_ty(ty);
            if !vs.is_empty() && self.w(6) {
                return read(&self.rng.pick(&vs).name.clone());
            }
            let gs: Vec<Var> = self.globals.iter().filter(|g| g.ty == ty).cloned().collect();
            if !gs.is_empty() && self.w(2) {
                return read(&self.rng.pick(&gs).name.clone());
            }
            return self.lit(ty);
        }
        let d = depth - 1;
        match ty {
            Ty::Int => match self.rng.below(16) {
                0 | 1 => self.expr(cx, ty, 0),
                2 | 3 => {
                    let op = *self.rng.pick(&["Add", "Sub"]);
                    let (a, b) = (self.num_operand(cx, d), self.num_int_operand(cx, d));
                    card(op, vec![a, b])
                }
                4 => card("Mul", vec![self.expr(cx, Ty::Int, 0), int(self.rng.below(5) as i64 - 1)]),
                5 | 6 => {
                    let op = *self.rng.pick(&["Less", "LessOrEq", "Equals", "NotEquals"]);
                    let (a, b) = if op == "Equals" || op == "NotEquals" {
                        let t = *self.rng.pick(&[Ty::Int, Ty::Int, Ty::Str, Ty::Real, Ty::Nil]);
                        (self.expr(cx, t, d), self.expr(cx, t, d))
                    } else if self.w(1) {
                        // two strings: ordered by length; of equal length never less, and "less or equal" only when equal
                        (self.expr(cx, Ty::Str, d), self.expr(cx, Ty::Str, d))
                    } else {
                        (self.cmp_operand(cx, d), self.cmp_operand(cx, d))
                    };
                    card(op, vec![a, b])
                }
                7 => {
                    let op = *self.rng.pick(&["And", "Or", "Xor"]);
                    let (ta, tb) = (self.truthy_ty(), self.truthy_ty());
                    card(op, vec![self.expr(cx, ta, d), self.expr(cx, tb, d)])
                }
                8 => {
                    let t = self.truthy_ty();
                    card("Not", vec![self.expr(cx, t, d)])
                }
                9 => {
                    let t = self.any_ty();
                    card("Len", vec![self.expr_a(cx, t, d, aok)])
                }
                10 | 11 => self.call_expr(cx, d).unwrap_or_else(|| self.expr(cx, ty, 0)),
                12 => {
                    // a composite card used as a value: statements, then one value-producing card
                    let mut cs = vec![card("Comment", vec![])];
                    cs.push(self.expr(cx, Ty::Int, d));
                    block(cs)
                }
                13 if self.prof.natives => {
                    if self.w(4) {
                        // a native function value called through DynamicCall
                        dyncall(named("NativeFunction", "id1", vec![]), vec![self.expr(cx, Ty::Int, d)])
                    } else {
                        native("id1", vec![self.expr(cx, Ty::Int, d)])
                    }
                }
                _ => card("Add", vec![self.expr(cx, Ty::Int, d), self.expr(cx, Ty::Int, d)]),
            },
            Ty::Real => match self.rng.below(6) {
                0 => self.expr(cx, ty, 0),
                1 => card(*self.rng.pick(&["Add", "Sub"]), vec![self.expr(cx, Ty::Real, d), self.num_operand(cx, d)]),
                2 => card("Div", vec![self.expr(cx, Ty::Int, d), int(*self.rng.pick(&[2, 4, -2, 8]))]),
                3 => card("Mul", vec![self.lit(Ty::Real), int(self.rng.below(4) as i64)]),
                4 => card("Div", vec![self.expr(cx, Ty::Int, 0), self.expr(cx, Ty::Int, 0)]),
                _ => card("Sub", vec![self.expr(cx, Ty::Int, d), self.lit(Ty::Real)]),
            },
            Ty::Str => self.expr(cx, ty, 0),
            Ty::Nil => {
                // the value of a call of a function that runs off its last card (nil), otherwise the literal
                let nil_sigs: Vec<Sig> = self.sigs.iter().filter(|s| s.ret == Ty::Nil).cloned().collect();
                if !nil_sigs.is_empty() && self.w(5) {
                    let s = self.rng.pick(&nil_sigs).clone();
                    let args = self.args_for(cx, &s.params, d);
                    if self.w(3) { dyncall(named_fn(&s.name), args) } else { call(&s.name, args) }
                } else {
                    nil()
                }
            }
            Ty::Tab => match if aok { self.rng.below(4) } else { 3 } {
                0 => {
                    let n = self.rng.below(4);
                    let items = (0..n).map(|_| {
                        let t = *self.rng.pick(&[Ty::Int, Ty::Int, Ty::Str, Ty::Real, Ty::Nil]);
                        self.expr(cx, t, d)
                    }).collect();
                    card("Array", items)
                }
                1 => {
                    // row of a literal array: index known to be in range
                    let n = 1 + self.rng.below(3);
                    let items: Vec<C> = (0..n).map(|_| self.expr(cx, Ty::Int, 0)).collect();
                    card("Get", vec![card("Array", items), int(self.rng.below(n) as i64)])
                }
                _ => self.expr(cx, ty, 0),
            },
            Ty::Fun(n) => {
                let vs = cx.of_ty(ty);
                if !vs.is_empty() && self.w(4) {
                    return read(&self.rng.pick(&vs).name.clone());
                }
                let named: Vec<Sig> = self.sigs.iter().filter(|s| s.params.len() == n && s.ret == Ty::Int
                    && s.params.iter().all(|p| p.ty == Ty::Int)).cloned().collect();
                if !named.is_empty() && self.w(4) {
                    let s = self.rng.pick(&named).name.clone();
                    return named_fn(&s);
                }
                self.closure_lit(cx, n, d)
            }
        }
    }

    fn truthy_ty(&mut self) -> Ty {
        *self.rng.pick(&[Ty::Int, Ty::Int, Ty::Str, Ty::Tab, Ty::Nil, Ty::Real])
    }
    /// operand of +,-: usually an int, sometimes (mixed_coercions) nil / string / table / real
    fn num_operand(&mut self, cx: &Ctx, d: usize) -> C {
        if self.w(self.prof.mixed_coercions) {
            let t = *self.rng.pick(&[Ty::Nil, Ty::Str, Ty::Tab, Ty::Int]);
            self.expr(cx, t, d)
        } else {
            self.expr(cx, Ty::Int, d)
        }
    }
    fn num_int_operand(&mut self, cx: &Ctx, d: usize) -> C {
        self.num_operand(cx, d)
    }
    fn cmp_operand(&mut self, cx: &Ctx, d: usize) -> C {
        // at least numbers on one side keeps the comparison specified: use numbers mostly
        let t = if self.w(self.prof.mixed_coercions) { *self.rng.pick(&[Ty::Int, Ty::Real, Ty::Int, Ty::Real]) } else { Ty::Int };
        self.expr(cx, t, d)
    }

    fn args_for(&mut self, cx: &Ctx, params: &[Var], d: usize) -> Vec<C> {
        // args[0] binds to the LAST declared parameter
        params.iter().rev().map(|p| self.expr(cx, p.ty, d)).collect()
    }

    /// an integer-valued call: static, dynamic on a function value, or on a closure variable
    fn call_expr(&mut self, cx: &Ctx, d: usize) -> Option<C> {
        let int_sigs: Vec<Sig> = self.sigs.iter().filter(|s| s.ret == Ty::Int).cloned().collect();
        let fun_vars: Vec<Var> = cx.visible().into_iter().filter(|v| matches!(v.ty, Ty::Fun(_))).collect();
        if !fun_vars.is_empty() && self.w(5) {
            let v = self.rng.pick(&fun_vars).clone();
            if let Ty::Fun(n) = v.ty {
                let args = (0..n).map(|_| self.expr(cx, Ty::Int, d)).collect();
                return Some(dyncall(read(&v.name), args));
            }
        }
        if int_sigs.is_empty() {
            if self.w(self.prof.closures) {
                let n = self.rng.below(3);
                let f = self.closure_lit(cx, n, d);
                let args = (0..n).map(|_| self.expr(cx, Ty::Int, d)).collect();
                return Some(dyncall(f, args));
            }
            return None;
        }
        let s = self.rng.pick(&int_sigs).clone();
        let args = self.args_for(cx, &s.params, d);
        if self.w(3) {
            Some(dyncall(named_fn(&s.name), args))
        } else {
            Some(call(&s.name, args))
        }
    }

    /// Closure card with n integer parameters returning an integer; captures the visible variables
    fn closure_lit(&mut self, cx: &Ctx, n: usize, d: usize) -> C {
        let mut params: Vec<Var> = vec![];
        for _ in 0..n {
            // a parameter may shadow a captured integer variable (never another parameter)
            let mut name = self.fresh_or_shadow(cx, "p");
            if params.iter().any(|q: &Var| q.name == name) {
                name = self.fresh("p");
            }
            params.push(Var { name, ty: Ty::Int });
        }
        let mut inner = Ctx {
            scopes: vec![params.iter().rev().cloned().collect()],
            captured: cx.visible(),
            in_fn: true,
            ret: Ty::Int,
            loop_depth: 0,
            cond_depth: 0,
        };
        let mut body = vec![];
        let ns = self.rng.below(3);
        for _ in 0..ns {
            body.extend(self.stmt(&mut inner, d.min(2), true));
        }
        body.push(card("Return", vec![self.expr(&inner, Ty::Int, d.min(2))]));
        let names: Vec<&str> = params.iter().map(|p| p.name.as_str()).collect();
        closure(&names, body)
    }

    // ------------------------------------------------------------ statements
    fn block_of(&mut self, cx: &mut Ctx, depth: usize, can_declare: bool, n: usize) -> C {
        let mut cs = vec![];
        for _ in 0..n.max(1) {
            cs.extend(self.stmt(cx, depth, can_declare));
        }
        block(cs)
    }

    /// a card that raises a run-time error of a kind the properties name
    fn error_card(&mut self, cx: &Ctx) -> C {
        let v = || int(3);
        match self.rng.below(12) {
            0 => card("GetProperty", vec![int(1), int(2)]),
            1 => card("SetProperty", vec![v(), nil(), strlit("a")]),
            2 => card("AppendTable", vec![v(), strlit("ab")]),
            3 => card("PopTable", vec![int(0)]),
            4 => card("Get", vec![real(1, 1), int(0)]),
            5 => card("Get", vec![card("CreateTable", vec![]), strlit("a")]),
            6 => card("Get", vec![card("CreateTable", vec![]), int(-1)]),
            7 => foreach("", "k", "", int(5), card("Comment", vec![])),
            8 => dyncall(int(7), vec![]),
            9 => native("missing_native", vec![]),
            10 => native("fail0", vec![]),
            _ => {
                // the error in a non-last operand position of an enclosing value card
                let e = card("GetProperty", vec![nil(), strlit("x")]);
                let g = format!("g{}", self.rng.below(5));
                let other = self.expr(cx, Ty::Int, 1);
                setg(&g, card("Add", vec![e, other]))
            }
        }
    }

    /// a call of a typed host function (arguments mostly convertible, sometimes not) or of a host
    /// function that re-enters a script function / closure / native function value
    fn host_stmt(&mut self, cx: &Ctx) -> Vec<C> {
        let g = format!("g{}", self.rng.below(5));
        let reg = typed_registry();
        if self.w(6) {
            let typed: Vec<&Native> = reg.iter().filter(|n| n.beh == "typed").collect();
            let n = (*self.rng.pick(&typed)).clone();
            let args: Vec<C> = n.types.iter().map(|ty| {
                let wrong = self.rng.below(100) < 12;
                let t = match *ty {
                    "str" => if wrong { *self.rng.pick(&[Ty::Int, Ty::Nil, Ty::Tab, Ty::Real]) } else { Ty::Str },
                    "table" => if wrong { *self.rng.pick(&[Ty::Int, Ty::Nil, Ty::Str]) } else { Ty::Tab },
                    "nilable_i64" => *self.rng.pick(&[Ty::Nil, Ty::Int, Ty::Real, Ty::Str]),
                    "nilable_str" => *self.rng.pick(&[Ty::Nil, Ty::Str, Ty::Str, Ty::Int, Ty::Tab]),
                    _ => self.any_ty(),
                };
                self.expr(cx, t, 1)
            }).collect();
            let c = if self.w(3) { dyncall(named("NativeFunction", &n.name, vec![]), args) } else { native(&n.name, args) };
            return vec![setg(&g, c)];
        }
        if self.prof.try_natives && self.w(4) {
            // a host function that handles the failure of its callee: the callee runs a few instructions (sometimes through a
            // library native with callbacks) and then fails
            let p = self.fresh("p");
            let g2 = format!("g{}", self.rng.below(5));
            let fail = self.error_card(cx);
            let mut body = vec![setg(&g2, card("Add", vec![read(&p), int(1)]))];
            if self.w(4) {
                let h = format!("h{}", self.rng.below(3));
                body.push(setg(&h, card("CreateTable", vec![])));
                for x in 0..3 {
                    body.push(card("AppendTable", vec![int(x), read(&h)]));
                }
                let (k1, v1) = (self.fresh("k"), self.fresh("e"));
                body.push(setg(&g2, call("std.sorted_by_key", vec![closure(&[&k1, &v1], vec![native("fail0", vec![]), card("Return", vec![read(&v1)])]), read(&h)])));
            }
            body.push(fail);
            body.push(card("Return", vec![read(&p)]));
            let arg = self.expr(cx, Ty::Int, 1);
            return vec![setg(&g, native("try1", vec![closure(&[&p], body), arg]))];
        }
        // re-entry
        let k = self.rng.below(3);
        let f = match self.rng.below(5) {
            0 if k == 1 => named("NativeFunction", *self.rng.pick(&["id1", "t_i", "t_v"]), vec![]),
            // a host function value that fails: its failure carries its own name inside the re-entering function's failure
            0 if k == 0 && self.prof.natives => named("NativeFunction", "fail0", vec![]),
            1 if k == 1 => {
                // a closure that re-enters again through the host
                let p = self.fresh("p");
                let inner = self.closure_lit(cx, 1, 1);
                closure(&[&p], vec![card("Return", vec![native("call1", vec![inner, card("Add", vec![read(&p), int(1)])])])])
            }
            _ => self.expr(cx, Ty::Fun(k), 2),
        };
        let mut args = vec![f];
        for _ in 0..k {
            // mostly integers; now and then a string (a typed callee rejects it with an invalid-argument failure)
            let t = if self.rng.below(8) == 0 { Ty::Str } else { Ty::Int };
            args.push(self.expr(cx, t, 1));
        }
        vec![setg(&g, native(&format!("call{k}"), args))]
    }

    /// repeat K { garbage }: every iteration allocates objects that are unreachable afterwards
    fn garbage_loop(&mut self, cx: &mut Ctx) -> Vec<C> {
        let k = [20, 60, 150, 400][self.rng.below(4)];
        let mut body = vec![];
        let i = self.fresh("i");
        for _ in 0..1 + self.rng.below(3) {
            let g = format!("g{}", self.rng.below(5));
            // Array cards leave one stray nil per element on the value stack until the function
            // returns; long loops only use cards that leave nothing behind
            let pick = if k > 20 { [0, 1, 3, 5][self.rng.below(4)] } else { self.rng.below(6) };
            body.push(match pick {
                0 => setg(&g, strlit("garbage string that is long enough to matter")),
                1 => setg(&g, card("CreateTable", vec![])),
                2 => setg(&g, card("Array", vec![read(&i), strlit("x"), card("CreateTable", vec![])])),
                3 => setg(&g, closure(&[], vec![card("Return", vec![read(&i)])])),
                4 => setg(&g, card("Get", vec![card("Array", vec![int(1), int(2)]), int(0)])),
                _ => setg(&g, card("Len", vec![strlit("temporary")])),
            });
        }
        let _ = cx;
        if self.w(2) {
            // retained data: the loop keeps appending to a table held by a global, so small limits
            // are exceeded by data that is still reachable
            body.push(card("AppendTable", vec![strlit("retained string, reachable through the global table"), read("keep")]));
            return vec![setg("keep", card("CreateTable", vec![])), repeat(&i, int(k), block(body))];
        }
        vec![repeat(&i, int(k), block(body))]
    }

    pub fn stmt(&mut self, cx: &mut Ctx, depth: usize, can_declare: bool) -> Vec<C> {
        if self.prof.garbage > 0 && cx.loop_depth == 0 && cx.cond_depth == 0 && self.rng.below(100) < self.prof.garbage {
            return self.garbage_loop(cx);
        }
        if self.prof.host > 0 && self.rng.below(100) < self.prof.host {
            return self.host_stmt(cx);
        }
        if self.prof.errors > 0 && self.rng.below(100) < self.prof.errors {
            return vec![self.error_card(cx)];
        }
        let d = depth.saturating_sub(1);
        let ed = depth.min(2);
        let choice = self.rng.below(30);
        match choice {
            0..=4 => {
                // global assignment
                let t = self.any_ty();
                let name = if self.prof.many_globals { format!("g{}", self.rng.below(24)) } else { format!("g{}", self.rng.below(5)) };
                vec![setg(&name, self.expr_top(cx, t, ed))]
            }
            5..=8 => {
                // local: assign an existing one (same type) or declare a new one
                let vis = cx.visible();
                if !vis.is_empty() && (!can_declare || self.w(5)) {
                    let v = self.rng.pick(&vis).clone();
                    vec![setv(&v.name, self.expr_top(cx, v.ty, ed))]
                } else if can_declare {
                    let t = if self.w(self.prof.closures) { Ty::Fun(self.rng.below(3)) } else if self.w(self.prof.tables) { Ty::Tab } else { self.any_ty() };
                    let name = self.fresh("v");
                    let e = self.expr_top(cx, t, ed);
                    cx.declare(&name, t);
                    vec![setv(&name, e)]
                } else {
                    vec![card("Comment", vec![])]
                }
            }
            9 | 10 if depth > 0 => {
                let cond = self.expr_top(cx, Ty::Int, ed);
                let k = *self.rng.pick(&["IfTrue", "IfFalse", "IfElse"]);
                let n1 = 1 + self.rng.below(2);
                cx.cond_depth += 1;
                let a = self.block_of(cx, d, false, n1);
                let r = if k == "IfElse" {
                    let b = self.block_of(cx, d, false, 1);
                    vec![card(k, vec![cond, a, b])]
                } else {
                    vec![card(k, vec![cond, a])]
                };
                cx.cond_depth -= 1;
                r
            }
            11 | 12 if depth > 0 => {
                // repeat: the body is a new scope per iteration
                let i = if self.w(7) { self.fresh_or_shadow(cx, "i") } else { String::new() };
                let n = if self.w(8) { int(self.rng.below(4) as i64) } else { self.expr(cx, Ty::Int, 0) };
                let n = if let "ScalarInt" = n.k { n } else { card("Sub", vec![int(2), card("Sub", vec![int(2), int(self.rng.below(3) as i64)])]) };
                cx.scopes.push(vec![]);
                if !i.is_empty() {
                    cx.declare(&i, Ty::Int);
                }
                cx.loop_depth += 1;
                let saved = std::mem::replace(&mut cx.cond_depth, 0);
                let nb = 1 + self.rng.below(3);
                let body = self.block_of(cx, d, true, nb);
                cx.cond_depth = saved;
                cx.loop_depth -= 1;
                cx.scopes.pop();
                vec![repeat(&i, n, body)]
            }
            13 if depth > 0 && can_declare => {
                // while: counts a fresh local down to zero
                let w = self.fresh("w");
                let init = setv(&w, int(self.rng.below(4) as i64));
                cx.declare(&w, Ty::Int);
                cx.loop_depth += 1;
                cx.cond_depth += 1;
                let mut body = vec![];
                let nb = self.rng.below(3);
                for _ in 0..nb {
                    body.extend(self.stmt(cx, d, self.prof.while_decl));
                }
                cx.cond_depth -= 1;
                cx.loop_depth -= 1;
                body.push(setv(&w, card("Sub", vec![read(&w), int(1)])));
                vec![init, card("While", vec![card("Less", vec![int(0), read(&w)]), block(body)])]
            }
            14 | 15 if depth > 0 => {
                // for-each over a table expression
                let tabs = cx.of_ty(Ty::Tab);
                let arr_ok = !self.prof.safe_arrays || cx.cond_depth == 0;
                let it = if !tabs.is_empty() && (self.w(6) || !arr_ok) { read(&self.rng.pick(&tabs).name.clone()) } else if arr_ok {
                    let n = self.rng.below(4);
                    card("Array", (0..n).map(|_| self.expr(cx, Ty::Int, 0)).collect())
                } else {
                    card("CreateTable", vec![])
                };
                let (i, k, v) = (
                    if self.w(6) { self.fresh_or_shadow(cx, "i") } else { String::new() },
                    if self.w(6) { self.fresh("k") } else { String::new() },
                    if self.w(6) { self.fresh("e") } else { String::new() },
                );
                cx.scopes.push(vec![]);
                // the element type is unknown: loop variables k / v are only logged or stored, i is an int
                if !i.is_empty() {
                    cx.declare(&i, Ty::Int);
                }
                cx.loop_depth += 1;
                let saved = std::mem::replace(&mut cx.cond_depth, 0);
                let mut body = vec![];
                if !v.is_empty() && self.w(7) {
                    body.push(setg(&format!("g{}", self.rng.below(5)), read(&v)));
                }
                if !k.is_empty() && self.prof.natives && self.w(5) {
                    body.push(native("log1", vec![read(&k)]));
                }
                let nb = self.rng.below(3);
                for _ in 0..nb {
                    body.extend(self.stmt(cx, d, true));
                }
                if body.is_empty() {
                    body.push(card("Comment", vec![]));
                }
                cx.cond_depth = saved;
                cx.loop_depth -= 1;
                cx.scopes.pop();
                vec![foreach(&i, &k, &v, it, block(body))]
            }
            16 | 17 => {
                // table mutation
                let tabs = cx.of_ty(Ty::Tab);
                if tabs.is_empty() {
                    return vec![card("Comment", vec![])];
                }
                let t = self.rng.pick(&tabs).name.clone();
                let vt = *self.rng.pick(&[Ty::Int, Ty::Int, Ty::Str, Ty::Real, Ty::Nil, Ty::Tab]);
                // table-valued entries are always fresh tables: no aliasing, no cycles
                let val = if vt == Ty::Tab { card("CreateTable", vec![]) } else { self.expr_top(cx, vt, ed) };
                match self.rng.below(5) {
                    0 => vec![card("AppendTable", vec![val, read(&t)])],
                    1 => vec![setv(&format!("{t}.{}", self.rng.pick(&["a", "b", "key"])), val)],
                    2 => {
                        let kt = *self.rng.pick(&[Ty::Int, Ty::Str]);
                        let key = self.lit(kt);
                        vec![card("SetProperty", vec![val, read(&t), key])]
                    }
                    3 => vec![setg(&format!("g{}", self.rng.below(5)), card("PopTable", vec![read(&t)]))],
                    _ => {
                        let kt = *self.rng.pick(&[Ty::Int, Ty::Str]);
                        let key = self.lit(kt);
                        vec![setg(&format!("g{}", self.rng.below(5)), card("GetProperty", vec![read(&t), key]))]
                    }
                }
            }
            18 | 19 if self.prof.natives => {
                let n = 1 + self.rng.below(3);
                let args = (0..n).map(|_| {
                    let t = self.any_ty();
                    self.expr(cx, t, ed)
                }).collect();
                vec![native(&format!("log{n}"), args)]
            }
            20 | 21 => {
                // a call used as a statement (its value is discarded)
                match self.call_expr(cx, ed) {
                    Some(c) => vec![c],
                    None => vec![card("Comment", vec![])],
                }
            }
            22 if cx.in_fn && depth > 0 => {
                // early return, possibly from inside loops
                let cond = self.expr(cx, Ty::Int, ed);
                let e = self.expr(cx, cx.ret, ed);
                vec![card("IfTrue", vec![cond, card("Return", vec![e])])]
            }
            23 => {
                // read a table field through the dotted shorthand
                let tabs = cx.of_ty(Ty::Tab);
                if tabs.is_empty() {
                    return vec![card("Comment", vec![])];
                }
                let t = self.rng.pick(&tabs).name.clone();
                vec![setg(&format!("g{}", self.rng.below(5)), read(&format!("{t}.{}", self.rng.pick(&["a", "b", "key"]))))]
            }
            24 if self.prof.stdlib > 0 => self.std_stmt(cx, ed),
            26 | 27 if self.prof.tables > 0 && !cx.of_ty(Ty::Tab).is_empty() => {
                // a string-keyed field written twice (each write names it by a fresh string object) with garbage in between, then read
                let tabs = cx.of_ty(Ty::Tab);
                let t = self.rng.pick(&tabs).name.clone();
                let f = *self.rng.pick(&["a", "b", "key"]);
                let (g1, g2) = (format!("g{}", self.rng.below(5)), format!("g{}", self.rng.below(5)));
                vec![setv(&format!("{t}.{f}"), int(self.rng.below(9) as i64)), setg(&g1, strlit("filler string one")),
                     setv(&format!("{t}.{f}"), int(10 + self.rng.below(9) as i64)), setg(&g1, strlit("filler string two")),
                     setg(&g2, read(&format!("{t}.{f}")))]
            }
            25 if depth > 0 && self.w(3) && (!cx.in_fn || (self.prof.host == 0 && self.prof.stdlib == 0)) => {
                // Abort ends the whole program (successfully), wherever it is executed -- except below a host function that
                // re-entered the interpreter (Appendix B: there it only ends the callee), so it is generated in functions and
                // closures only for profiles without re-entering natives and library callbacks
                let cond = self.expr_top(cx, Ty::Int, 1);
                vec![card("IfTrue", vec![card("Less", vec![int(3), cond]), card("Abort", vec![])])]
            }
            _ => {
                let t = self.any_ty();
                vec![setg(&format!("g{}", self.rng.below(5)), self.expr_top(cx, t, ed))]
            }
        }
    }

    /// g := std.<fn>(callback, table)
    fn std_stmt(&mut self, cx: &mut Ctx, d: usize) -> Vec<C> {
        // mostly small tables; sometimes long ones with many tied keys (sort stability, min/max tie-breaking)
        // (not inside loops: an Array card leaves one stray value per element on the value stack until its function returns,
        // so long arrays in a loop run into the 256-slot stack limit, which is a resource limit and not a semantic difference)
        let big = self.w(2) && cx.loop_depth == 0;
        let n = if big { 21 + self.rng.below(28) } else { self.rng.below(5) };
        // mostly integers; in small tables now and then a nil (an entry whose value is nil is an entry like any other)
        let items: Vec<C> = (0..n).map(|_| if !big && self.rng.below(7) == 0 { nil() } else { int(self.rng.below(if big { 40 } else { 6 }) as i64) }).collect();
        let tabs = cx.of_ty(Ty::Tab);
        let mut pre = vec![];
        let t = if !big && !tabs.is_empty() && self.w(4) { read(&self.rng.pick(&tabs).name.clone()) } else if !self.prof.safe_arrays { card("Array", items) } else {
            // build the table in a global first (a statement-level Array with an empty operand stack)
            let h = format!("h{}", self.rng.below(3));
            if cx.cond_depth == 0 {
                pre.push(setg(&h, card("Array", items)));
            } else {
                pre.push(setg(&h, card("CreateTable", vec![])));
                for it in items {
                    pre.push(card("AppendTable", vec![it, read(&h)]));
                }
            }
            read(&h)
        };
        let f = if big {
            *self.rng.pick(&["std.sorted_by_key", "std.sorted_by_key", "std.sorted", "std.min_by_key", "std.max_by_key"])
        } else {
            *self.rng.pick(&["std.filter", "std.map", "std.any", "std.min", "std.max", "std.sorted", "std.to_array",
                             "std.min_by_key", "std.max_by_key", "std.sorted_by_key"])
        };
        let g = format!("g{}", self.rng.below(5));
        let cb3 = |this: &mut Self, cx: &Ctx| -> C {
            // callbacks of filter/map/any receive (key, value, index) bound by the reversed convention
            let (k, v, i) = (this.fresh("k"), this.fresh("e"), this.fresh("i"));
            let inner = Ctx { scopes: vec![vec![Var { name: i.clone(), ty: Ty::Int }]], captured: cx.visible(), in_fn: true, ret: Ty::Int, loop_depth: 0, cond_depth: 0 };
            let body = match this.rng.below(3) {
                0 => card("Less", vec![int(2), read(&v)]),
                1 => card("Add", vec![read(&v), read(&i)]),
                _ => this.expr(&inner, Ty::Int, d.min(1)),
            };
            closure(&[&k, &v, &i], vec![card("Return", vec![body])])
        };
        let keyfn = |this: &mut Self| -> C {
            let (k, v) = (this.fresh("k"), this.fresh("e"));
            let body = match this.rng.below(if big { 5 } else { 3 }) {
                0 => read(&v),
                1 => card("Sub", vec![int(0), read(&v)]),
                2 => card("Mul", vec![read(&v), int(0)]),
                3 => card("Div", vec![read(&v), int(16)]),
                _ => card("Less", vec![read(&v), int(20)]),
            };
            closure(&[&k, &v], vec![card("Return", vec![body])])
        };
        let c = match f {
            "std.filter" | "std.map" | "std.any" => {
                let cb = cb3(self, cx);
                call(f, vec![cb, t])
            }
            "std.min_by_key" | "std.max_by_key" | "std.sorted_by_key" => {
                let kf = keyfn(self);
                call(f, vec![kf, t])
            }
            _ => call(f, vec![t]),
        };
        pre.push(setg(&g, c));
        pre
    }

    // ------------------------------------------------------------ functions and programs
    fn function(&mut self, idx: usize) -> F {
        let np = self.rng.below(4);
        let params: Vec<Var> = (0..np).map(|_| {
            let ty = *self.rng.pick(&[Ty::Int, Ty::Int, Ty::Int, Ty::Tab, Ty::Real, Ty::Str]);
            Var { name: self.fresh("a"), ty }
        }).collect();
        let ret = *self.rng.pick(&[Ty::Int, Ty::Int, Ty::Int, Ty::Tab, Ty::Str, Ty::Real]);
        // in the `errors` profile half of the functions live in two submodules (function numbers restart in every module;
        // calls use the full path from the root, which resolves from anywhere)
        let name = if self.prof.errors > 0 && self.rng.below(2) == 0 { format!("m{}.f{idx}", idx % 2) } else { format!("f{idx}") };
        // parameters are locals; the runtime places the last declared parameter in the lowest slot
        let mut cx = Ctx { scopes: vec![params.iter().rev().cloned().collect()], captured: vec![], in_fn: true, ret, loop_depth: 0, cond_depth: 0 };
        let mut body = vec![];
        // now and then a function without any card (its implicit nil return is all there is)
        let n = if self.rng.below(12) == 0 { 0 } else { 1 + self.rng.below(self.prof.stmts) };
        for _ in 0..n {
            body.extend(self.stmt(&mut cx, self.prof.max_depth, true));
        }
        if n > 0 && self.w(8) {
            body.push(card("Return", vec![self.expr(&cx, ret, 2)]));
        }
        let ret = if matches!(body.last().map(|c| c.k), Some("Return")) { ret } else { Ty::Nil };
        self.sigs.push(Sig { name: name.clone(), params: params.clone(), ret });
        F { name, params: params.iter().map(|p| p.name.clone()).collect(), body }
    }

    pub fn program(&mut self) -> P {
        let mut fns = vec![F { name: "main".into(), params: vec![], body: vec![] }];
        for i in 0..self.prof.nfns {
            let f = self.function(i + 1);
            fns.push(f);
        }
        // main: a prologue of definite global assignments, then statements
        let mut cx = Ctx { scopes: vec![vec![]], captured: vec![], in_fn: false, ret: Ty::Nil, loop_depth: 0, cond_depth: 0 };
        let mut body = vec![];
        // note: the functions above were generated before these globals existed, so they never read them
        let n = 1 + self.rng.below(self.prof.stmts + 2);
        for _ in 0..n {
            body.extend(self.stmt(&mut cx, self.prof.max_depth, true));
        }
        // export every local so that the observation sees it
        for (j, v) in cx.visible().iter().enumerate() {
            if !matches!(v.ty, Ty::Fun(_)) {
                body.push(setg(&format!("x{j}"), read(&v.name)));
            }
        }
        if self.prof.errors > 0 && self.rng.below(5) == 0 {
            // direct recursion through one call card with the failing card at the bottom: the error location must list
            // one entry per active call
            let e = self.error_card(&cx);
            fns.push(F { name: "rec".into(), params: vec!["n".into()], body: vec![
                card("IfTrue", vec![card("Less", vec![int(0), read("n")]), card("Return", vec![call("rec", vec![card("Sub", vec![read("n"), int(1)])])])]),
                e,
                card("Return", vec![int(0)]),
            ] });
            let k = 1 + self.rng.below(5) as i64;
            let at = self.rng.below(body.len() + 1);
            body.insert(at, setg("grec", call("rec", vec![int(k)])));
        }
        if self.prof.errors > 0 && self.prof.natives && self.rng.below(4) == 0 {
            // two one-function modules next to each other: the first function has a single card, the second starts with the
            // failing card (same function number and same card index in different modules: only the namespace tells them apart)
            let first = match self.rng.below(4) {
                0 => native("fail0", vec![]),
                1 => native("missing_native", vec![]),
                2 => setg("gz", card("GetProperty", vec![read("never_assigned_anywhere"), strlit("x")])),
                _ => card("Get", vec![card("CreateTable", vec![]), int(-1)]),
            };
            fns.push(F { name: "ma.one".into(), params: vec![], body: vec![setg("gone", int(1))] });
            fns.push(F { name: "mb.work".into(), params: vec![], body: vec![first, card("Return", vec![int(0)])] });
            let at = self.rng.below(body.len() + 1);
            body.insert(at, setg("gw", call("mb.work", vec![])));
            body.insert(at, setg("go", call("ma.one", vec![])));
        }
        fns[0].body = body;
        let mut natives = vec![];
        if self.prof.natives {
            for (n, a, b) in [("log1", 1, "log"), ("log2", 2, "log"), ("log3", 3, "log"), ("id1", 1, "id"), ("fail0", 0, "fail")] {
                natives.push(Native { name: n.into(), arity: a, beh: b, types: vec!["value"; a] });
            }
        }
        natives.extend(typed_registry());
        P { fns, natives, imports: vec![] }
    }
}

fn named_fn(name: &str) -> C {
    named("Function", name, vec![])
}
