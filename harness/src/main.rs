//! `cv` — conformance harness binding the TLA+ specifications in /verif/spec to the cao-lang crate.
//!
//! Sub-commands come in two kinds:
//!  * `<area>-replay <cases.ndjson> [--skip K]`: executes behaviours produced by TLC (spec -> impl)
//!    and reports, per case, whether every observed outcome is admitted by the specification;
//!  * `<area>-drive ...`: drives the implementation with seeded random histories and writes an
//!    ndjson trace that a `*Trace.tla` specification validates (impl -> spec).
mod bytecode;
mod cards;
mod drive;
mod gen;
mod maps;
mod modedit;
mod nameres;
mod replay;
mod stacks;
mod tables;
mod total;
mod transport;
mod util;
mod values;
mod vmtrace;

use std::env;

fn main() {
    let args: Vec<String> = env::args().skip(1).collect();
    if args.is_empty() {
        eprintln!("usage: cv <command> ...");
        std::process::exit(2);
    }
    let rest = &args[1..];
    // panics of the code under test are data; keep stderr quiet
    std::panic::set_hook(Box::new(|_| {}));
    match args[0].as_str() {
        "stacks-replay" => util::run_cases(rest, stacks::replay_case),
        "stacks-drive" => stacks::drive(rest),
        "instr-drive" => vmtrace::instr_drive(rest),
        "persist-drive" => vmtrace::persist_drive(rest),
        "maps-replay" => util::run_cases(rest, maps::replay_case),
        "maps-drive" => maps::drive(rest),
        "modedit-replay" => util::run_cases(rest, modedit::replay_case),
        "modedit-drive" => modedit::drive(rest),
        "values-row" => util::run_cases(rest, values::table_row),
        "cards-drive" => drive::drive(rest),
        "cards-run" => util::run_cases(rest, drive::run_case),
        "host-register-names" => drive::register_names(rest),
        "nameres-run" => util::run_cases(rest, nameres::run_case),
        "budget-drive" => vmtrace::budget_drive(rest),
        "alloc-drive" => vmtrace::alloc_drive(rest),
        "gc-drive" => vmtrace::gc_drive(rest),
        "life-drive" => vmtrace::life_drive(rest),
        "bc-drive" => bytecode::drive(rest),
        "bc-run" => util::run_cases(rest, bytecode::run_case),
        "transport-drive" => transport::drive(rest),
        "transport-values" => transport::values(rest),
        "total-drive" => total::drive(rest),
        "heap-drive" => vmtrace::heap_drive(rest),
        "cards-show" => drive::show(rest),
        "table-replay" => util::run_cases(rest, tables::replay_case),
        "table-drive" => tables::drive(rest),
        other => {
            eprintln!("unknown command {other}");
            std::process::exit(2);
        }
    }
}
