//! C12 / C13: CaoHashMap and HandleTable against spec/MapSpec.tla
use crate::replay::*;
use crate::util::*;
use cao_lang::collections::handle_table::{Handle, HandleTable};
use cao_lang::collections::hash_map::CaoHashMap;
use cao_lang::verif::{AllocError, Allocator};
use serde_json::{json, Map, Value as J};
use std::alloc::Layout;
use std::cell::RefCell;
use std::collections::BTreeMap;
use std::hash::{Hash, Hasher};
use std::ptr::NonNull;
use std::rc::Rc;

pub const NKEYS: usize = 12;

// ------------------------------------------------------------------ allocator that can be armed to fail
#[derive(Default)]
struct AllocState {
    fail_next: bool,
    failed: u64,
    outstanding: i64,
}
#[derive(Clone, Default)]
pub struct FailAlloc(Rc<RefCell<AllocState>>);

impl Allocator for FailAlloc {
    unsafe fn alloc(&self, l: Layout) -> Result<NonNull<u8>, AllocError> {
        {
            let mut s = self.0.borrow_mut();
            if s.fail_next {
                s.fail_next = false;
                s.failed += 1;
                return Err(AllocError::OutOfMemory);
            }
            s.outstanding += 1;
        }
        let p = std::alloc::alloc(l);
        NonNull::new(p).ok_or(AllocError::OutOfMemory)
    }
    unsafe fn dealloc(&self, p: NonNull<u8>, l: Layout) {
        self.0.borrow_mut().outstanding -= 1;
        std::alloc::dealloc(p.as_ptr(), l)
    }
}

// ------------------------------------------------------------------ ledgers
#[derive(Default)]
struct Ledger {
    keys: BTreeMap<usize, i64>, // model key index -> outstanding key objects
    vals: BTreeMap<u64, i64>,   // value id -> outstanding value objects
    over_dropped: bool,
}
type L = Rc<RefCell<Ledger>>;

struct KeyTok {
    idx: usize,
    real: i64,
    l: L,
}
impl KeyTok {
    fn new(idx: usize, real: i64, l: &L) -> Self {
        *l.borrow_mut().keys.entry(idx).or_insert(0) += 1;
        KeyTok { idx, real, l: l.clone() }
    }
}
impl Drop for KeyTok {
    fn drop(&mut self) {
        let mut l = self.l.borrow_mut();
        let e = l.keys.entry(self.idx).or_insert(0);
        *e -= 1;
        if *e < 0 {
            l.over_dropped = true;
        }
    }
}
impl Clone for KeyTok {
    fn clone(&self) -> Self {
        KeyTok::new(self.idx, self.real, &self.l)
    }
}
impl PartialEq for KeyTok {
    fn eq(&self, o: &Self) -> bool {
        self.real == o.real
    }
}
impl Eq for KeyTok {}
impl Hash for KeyTok {
    fn hash<H: Hasher>(&self, state: &mut H) {
        self.real.hash(state)
    }
}

struct ValTok {
    id: u64,
    l: L,
}
impl ValTok {
    fn new(id: u64, l: &L) -> Self {
        *l.borrow_mut().vals.entry(id).or_insert(0) += 1;
        ValTok { id, l: l.clone() }
    }
}
impl Drop for ValTok {
    fn drop(&mut self) {
        let mut l = self.l.borrow_mut();
        let e = l.vals.entry(self.id).or_insert(0);
        *e -= 1;
        if *e < 0 {
            l.over_dropped = true;
        }
    }
}
impl Clone for ValTok {
    fn clone(&self) -> Self {
        ValTok::new(self.id, &self.l)
    }
}

/// what the map harness needs of a value type: ValTok counts its drops, PlainVal has no drop glue at all
/// (CaoHashMap consults needs_drop::<K>() / needs_drop::<V>() separately)
trait ValLike: Clone + 'static {
    const TRACKED: bool;
    fn make(id: u64, l: &L) -> Self;
    fn id(&self) -> u64;
}
impl ValLike for ValTok {
    const TRACKED: bool = true;
    fn make(id: u64, l: &L) -> Self {
        ValTok::new(id, l)
    }
    fn id(&self) -> u64 {
        self.id
    }
}
#[derive(Clone, Copy)]
struct PlainVal(u64);
impl ValLike for PlainVal {
    const TRACKED: bool = false;
    fn make(id: u64, _l: &L) -> Self {
        PlainVal(id)
    }
    fn id(&self) -> u64 {
        self.0
    }
}

// ------------------------------------------------------------------ key profiles
/// hash a CaoHashMap would compute for an i64 key (insert returns it)
fn hm_hash(k: i64) -> u64 {
    let mut m: CaoHashMap<i64, ()> = CaoHashMap::with_capacity_in(4, Default::default()).unwrap();
    m.insert(k, ()).unwrap()
}
fn hm_home(k: i64, cap: usize) -> usize {
    (hm_hash(k).wrapping_mul(2654435769) as usize) % cap.max(1)
}
fn ht_home(h: Handle, cap: usize) -> usize {
    let cap = cap.max(2).next_power_of_two();
    (h.value().wrapping_mul(2654435769) as usize) & (cap - 1)
}
fn next_cap_hm(c: usize) -> usize {
    (c.max(2) * 3) / 2
}

/// real keys for the NKEYS model keys.
/// profile 0: k1..k4 share a home slot at the initial capacity (the last slot, so probing wraps),
///            k5..k8 share a home slot at the next capacity of the growth chain, rest sequential
/// profile 1: sequential small integers
/// profile 2..: seeded pseudo-random
fn profile_keys(kind: &str, cap0: usize, profile: usize) -> Vec<i64> {
    thread_local! {
        static CACHE: RefCell<BTreeMap<(String, usize, usize), Vec<i64>>> = RefCell::new(BTreeMap::new());
    }
    let key = (kind.to_string(), cap0, profile);
    if let Some(v) = CACHE.with(|c| c.borrow().get(&key).cloned()) {
        return v;
    }
    let v = profile_keys_uncached(kind, cap0, profile);
    CACHE.with(|c| c.borrow_mut().insert(key, v.clone()));
    v
}

fn profile_keys_uncached(kind: &str, cap0: usize, profile: usize) -> Vec<i64> {
    let home = |k: i64, cap: usize| -> usize {
        if kind == "hm" {
            hm_home(k, cap)
        } else {
            ht_home(Handle::from_u32(k as u32), cap)
        }
    };
    match profile {
        0 => {
            let a = if kind == "hm" { cap0.max(1) } else { cap0.max(4).next_power_of_two() };
            let b = if kind == "hm" { next_cap_hm(a) } else { a * 2 };
            let mut out: Vec<i64> = vec![];
            let mut c = 1i64;
            while out.len() < 4 && c < 400000 {
                if home(c, a) == a - 1 {
                    out.push(c);
                }
                c += 1;
            }
            let target = b / 2;
            while out.len() < 8 && c < 800000 {
                if home(c, b) == target && !out.contains(&c) {
                    out.push(c);
                }
                c += 1;
            }
            let mut s = 1000003i64;
            while out.len() < NKEYS {
                out.push(s);
                s += 1;
            }
            out
        }
        1 => (1..=NKEYS as i64).collect(),
        p => {
            let mut r = Rng::new(p as u64 * 7919 + cap0 as u64);
            let mut out: Vec<i64> = vec![];
            while out.len() < NKEYS {
                let k = 1 + (r.next() % 1_000_000) as i64;
                if !out.contains(&k) {
                    out.push(k);
                }
            }
            out
        }
    }
}

/// hash a table computes for an integer key
fn tab_hash(k: i64) -> u64 {
    use cao_lang::prelude::Value;
    let mut m: CaoHashMap<Value, ()> = CaoHashMap::with_capacity_in(4, Default::default()).unwrap();
    m.insert(Value::Integer(k), ()).unwrap()
}

/// real keys whose scrambled hash has a given residue: model key i gets the first unused real key c >= 1 with
/// scramble(c) % modulus == residues[i] (the home slot at every capacity dividing `modulus` is then residue % capacity)
fn residue_keys(kind: &str, modulus: usize, residues: &[usize]) -> Vec<i64> {
    thread_local! {
        static BY_RES: RefCell<BTreeMap<(String, usize), Vec<Vec<i64>>>> = RefCell::new(BTreeMap::new());
    }
    let need = residues.len().max(1);
    let table = BY_RES.with(|c| {
        let mut c = c.borrow_mut();
        let e = c.entry((kind.to_string(), modulus)).or_insert_with(|| {
            let mut t: Vec<Vec<i64>> = vec![vec![]; modulus];
            let mut k = 1i64;
            while t.iter().any(|v| v.len() < NKEYS) && k < 2_000_000 {
                let scr = match kind {
                    "hm" => hm_hash(k).wrapping_mul(2654435769) as usize,
                    "tab" => tab_hash(k).wrapping_mul(2654435769) as usize,
                    _ => (k as u32).wrapping_mul(2654435769) as usize,
                };
                let r = scr % modulus;
                if t[r].len() < NKEYS {
                    t[r].push(k);
                }
                k += 1;
            }
            t
        });
        e.clone()
    });
    let _ = need;
    if std::env::var("CV_DEBUG").is_ok() {
        eprintln!("residue table {kind} mod {modulus}: {:?}", table.iter().map(|v| v.len()).collect::<Vec<_>>());
    }
    let mut used = vec![0usize; modulus];
    let mut out = vec![];
    for r in residues {
        out.push(table[*r][used[*r]]);
        used[*r] += 1;
    }
    let mut s = 3_000_003i64;
    while out.len() < NKEYS {
        out.push(s);
        s += 1;
    }
    out
}

fn key_index(name: &str) -> usize {
    name.trim_start_matches('k').parse::<usize>().expect("model key name") - 1
}
fn key_name(i: usize) -> String {
    format!("k{}", i + 1)
}

fn obj_or_empty(m: Map<String, J>) -> J {
    // TLC renders a function with an empty domain as the empty tuple
    if m.is_empty() {
        json!([])
    } else {
        J::Object(m)
    }
}

// ------------------------------------------------------------------ CaoHashMap
struct Hm<V: ValLike> {
    m: Option<CaoHashMap<KeyTok, V, FailAlloc>>,
    cl: Option<CaoHashMap<KeyTok, V, FailAlloc>>,
    alloc: FailAlloc,
    l: L,
    keys: Vec<i64>,
    nkeys: usize,
    nextv: u64,
}

fn hm_contents<V: ValLike>(m: &CaoHashMap<KeyTok, V, FailAlloc>, keys: &[i64], nkeys: usize, l: &L) -> Result<J, J> {
    // by iteration
    let mut by_iter: Vec<(usize, u64)> = m.iter().map(|(k, v)| (k.idx, v.id())).collect();
    by_iter.sort();
    // by lookup of every model key
    let mut by_get: Vec<(usize, u64)> = vec![];
    for i in 0..nkeys {
        let probe = KeyTok::new(i, keys[i], l);
        let g = m.get(&probe).map(|v| v.id());
        let c = m.contains(&probe);
        if g.is_some() != c {
            return Err(json!({"inconsistent": "get/contains disagree", "key": key_name(i)}));
        }
        if let Some(v) = g {
            by_get.push((i, v));
        }
    }
    if by_iter != by_get || m.len() != by_get.len() || m.is_empty() != by_get.is_empty() {
        return Err(json!({"inconsistent": {"iter": by_iter, "lookups": by_get, "len": m.len()}}));
    }
    let mut o = Map::new();
    for (i, v) in by_get {
        o.insert(key_name(i), json!(v));
    }
    Ok(obj_or_empty(o))
}

impl<V: ValLike> Hm<V> {
    fn proj(&self) -> J {
        let m = match hm_contents(self.m.as_ref().unwrap(), &self.keys, self.nkeys, &self.l) {
            Ok(m) => m,
            Err(e) => return e,
        };
        let cl = match &self.cl {
            Some(c) => match hm_contents(c, &self.keys, self.nkeys, &self.l) {
                Ok(m) => json!({"has": true, "m": m}),
                Err(e) => return json!({"clone": e}),
            },
            None => json!({"has": false, "m": []}),
        };
        let l = self.l.borrow();
        if l.over_dropped {
            return json!({"inconsistent": "an object was dropped more often than it was created"});
        }
        let outv: Vec<i64> = if V::TRACKED {
            (1..self.nextv).map(|v| l.vals.get(&v).copied().unwrap_or(0)).collect()
        } else {
            // plain values have no drop to count: the holders are read off the maps
            let mut held: BTreeMap<u64, i64> = BTreeMap::new();
            for mm in [self.m.as_ref(), self.cl.as_ref()].into_iter().flatten() {
                for (_, v) in mm.iter() {
                    *held.entry(v.id()).or_insert(0) += 1;
                }
            }
            (1..self.nextv).map(|v| held.get(&v).copied().unwrap_or(0)).collect()
        };
        let mut outk = Map::new();
        for i in 0..self.nkeys {
            outk.insert(key_name(i), json!(l.keys.get(&i).copied().unwrap_or(0)));
        }
        json!({"m": m, "cl": cl, "outv": outv, "outk": outk})
    }
}

impl<V: ValLike> Sut for Hm<V> {
    fn exec(&mut self, op: &J) -> J {
        let name = op["op"].as_str().unwrap();
        let kname = op["k"].as_str().unwrap_or("-");
        let n = op["n"].as_u64().unwrap_or(0) as usize;
        let fail = op["fail"].as_bool().unwrap_or(false);
        let mk = |s: &Self| {
            let i = key_index(kname);
            KeyTok::new(i, s.keys[i], &s.l)
        };
        self.alloc.0.borrow_mut().fail_next = fail;
        let map = self.m.as_mut().unwrap();
        let (ok, vs): (bool, Vec<u64>) = match name {
            "insert" => {
                let k = {
                    let i = key_index(kname);
                    KeyTok::new(i, self.keys[i], &self.l)
                };
                let v = V::make(self.nextv, &self.l);
                self.nextv += 1;
                (map.insert(k, v).is_ok(), vec![])
            }
            "remove" => {
                let k = {
                    let i = key_index(kname);
                    KeyTok::new(i, self.keys[i], &self.l)
                };
                match map.remove(&k) {
                    Some(v) => (true, vec![v.id()]),
                    None => (false, vec![]),
                }
            }
            "get" | "index" => {
                let k = {
                    let i = key_index(kname);
                    KeyTok::new(i, self.keys[i], &self.l)
                };
                match map.get(&k) {
                    Some(v) => (true, vec![v.id()]),
                    None => (false, vec![]),
                }
            }
            "contains" => {
                let k = {
                    let i = key_index(kname);
                    KeyTok::new(i, self.keys[i], &self.l)
                };
                (map.contains(&k), vec![])
            }
            "get_mut" => {
                let k = {
                    let i = key_index(kname);
                    KeyTok::new(i, self.keys[i], &self.l)
                };
                match map.get_mut(&k) {
                    Some(r) => {
                        let old = r.id();
                        *r = V::make(self.nextv, &self.l);
                        self.nextv += 1;
                        (true, vec![old])
                    }
                    None => (false, vec![]),
                }
            }
            "entry" => {
                let k = {
                    let i = key_index(kname);
                    KeyTok::new(i, self.keys[i], &self.l)
                };
                let nextv = &mut self.nextv;
                let l = self.l.clone();
                match map.entry(k) {
                    Ok(e) => {
                        let r = e.or_insert_with(|| {
                            let v = V::make(*nextv, &l);
                            *nextv += 1;
                            v
                        });
                        (true, vec![r.id()])
                    }
                    Err(_) => (false, vec![]),
                }
            }
            "reserve" => (map.reserve(n).is_ok(), vec![]),
            "clear" => {
                map.clear();
                (true, vec![])
            }
            "clone" => {
                self.cl = None;
                let c = map.clone();
                self.cl = Some(c);
                (true, vec![])
            }
            "dropclone" => {
                self.cl = None;
                (true, vec![])
            }
            "drop" => {
                self.m = None;
                self.cl = None;
                self.alloc.0.borrow_mut().fail_next = false;
                let l = self.l.borrow();
                let leaked_objs = l.keys.values().any(|c| *c != 0) || l.vals.values().any(|c| *c != 0);
                let outstanding = self.alloc.0.borrow().outstanding;
                return json!({"ret": {"ok": !leaked_objs && outstanding == 0, "vs": []},
                              "proj": {"leaked_objects": leaked_objs, "outstanding_allocations": outstanding}});
            }
            other => panic!("unknown op {other}"),
        };
        let _ = mk;
        self.alloc.0.borrow_mut().fail_next = false;
        json!({"ret": {"ok": ok, "vs": vs}, "proj": self.proj()})
    }
}

// ------------------------------------------------------------------ HandleTable
struct Ht {
    m: Option<HandleTable<ValTok, FailAlloc>>,
    cl: Option<HandleTable<ValTok, FailAlloc>>,
    alloc: FailAlloc,
    l: L,
    keys: Vec<Handle>,
    nkeys: usize,
    nextv: u64,
}

fn ht_contents(m: &HandleTable<ValTok, FailAlloc>, keys: &[Handle], nkeys: usize) -> Result<J, J> {
    let mut by_iter: Vec<(usize, u64)> = vec![];
    for (h, v) in m.iter() {
        match keys.iter().position(|k| *k == h) {
            Some(i) => by_iter.push((i, v.id)),
            None => return Err(json!({"inconsistent": "iteration yields an unknown handle", "handle": h.value()})),
        }
    }
    by_iter.sort();
    let mut by_get: Vec<(usize, u64)> = vec![];
    for i in 0..nkeys {
        let g = m.get(keys[i]).map(|v| v.id);
        if g.is_some() != m.contains(keys[i]) {
            return Err(json!({"inconsistent": "get/contains disagree", "key": key_name(i)}));
        }
        if let Some(v) = g {
            by_get.push((i, v));
        }
    }
    if by_iter != by_get || m.len() != by_get.len() || m.is_empty() != by_get.is_empty() {
        return Err(json!({"inconsistent": {"iter": by_iter, "lookups": by_get, "len": m.len()}}));
    }
    let mut o = Map::new();
    for (i, v) in by_get {
        o.insert(key_name(i), json!(v));
    }
    Ok(obj_or_empty(o))
}

impl Ht {
    fn proj(&self) -> J {
        let m = match ht_contents(self.m.as_ref().unwrap(), &self.keys, self.nkeys) {
            Ok(m) => m,
            Err(e) => return e,
        };
        let cl = match &self.cl {
            Some(c) => match ht_contents(c, &self.keys, self.nkeys) {
                Ok(m) => json!({"has": true, "m": m}),
                Err(e) => return json!({"clone": e}),
            },
            None => json!({"has": false, "m": []}),
        };
        let l = self.l.borrow();
        if l.over_dropped {
            return json!({"inconsistent": "an object was dropped more often than it was created"});
        }
        let outv: Vec<i64> = (1..self.nextv).map(|v| l.vals.get(&v).copied().unwrap_or(0)).collect();
        json!({"m": m, "cl": cl, "outv": outv})
    }
}

impl Sut for Ht {
    fn exec(&mut self, op: &J) -> J {
        let name = op["op"].as_str().unwrap();
        let kname = op["k"].as_str().unwrap_or("-");
        let n = op["n"].as_u64().unwrap_or(0) as usize;
        let fail = op["fail"].as_bool().unwrap_or(false);
        let key = |s: &Self| s.keys[key_index(kname)];
        self.alloc.0.borrow_mut().fail_next = fail;
        let (ok, vs): (bool, Vec<u64>) = match name {
            "insert" => {
                let k = key(self);
                let v = ValTok::new(self.nextv, &self.l);
                self.nextv += 1;
                (self.m.as_mut().unwrap().insert(k, v).is_ok(), vec![])
            }
            "remove" => {
                let k = key(self);
                match self.m.as_mut().unwrap().remove(k) {
                    Some(v) => (true, vec![v.id]),
                    None => (false, vec![]),
                }
            }
            "get" => match self.m.as_ref().unwrap().get(key(self)) {
                Some(v) => (true, vec![v.id]),
                None => (false, vec![]),
            },
            "index" => {
                let k = key(self);
                let t: &HandleTable<ValTok, FailAlloc> = self.m.as_ref().unwrap();
                // Index is only implemented for the default allocator; go through get for others
                match t.get(k) {
                    Some(v) => (true, vec![v.id]),
                    None => (false, vec![]),
                }
            }
            "contains" => (self.m.as_ref().unwrap().contains(key(self)), vec![]),
            "get_mut" => {
                let k = key(self);
                match self.m.as_mut().unwrap().get_mut(k) {
                    Some(r) => {
                        let old = r.id;
                        *r = ValTok::new(self.nextv, &self.l);
                        self.nextv += 1;
                        (true, vec![old])
                    }
                    None => (false, vec![]),
                }
            }
            "entry" => {
                let k = key(self);
                let nextv = &mut self.nextv;
                let l = self.l.clone();
                let r = self.m.as_mut().unwrap().entry(k).or_insert_with(|| {
                    let v = ValTok::new(*nextv, &l);
                    *nextv += 1;
                    v
                });
                (true, vec![r.id])
            }
            "reserve" => (self.m.as_mut().unwrap().reserve(n).is_ok(), vec![]),
            "clear" => {
                self.m.as_mut().unwrap().clear();
                (true, vec![])
            }
            "clone" => {
                self.cl = None;
                let c = self.m.as_ref().unwrap().clone();
                self.cl = Some(c);
                (true, vec![])
            }
            "dropclone" => {
                self.cl = None;
                (true, vec![])
            }
            "drop" => {
                self.m = None;
                self.cl = None;
                self.alloc.0.borrow_mut().fail_next = false;
                let l = self.l.borrow();
                let leaked_objs = l.vals.values().any(|c| *c != 0);
                let outstanding = self.alloc.0.borrow().outstanding;
                return json!({"ret": {"ok": !leaked_objs && outstanding == 0, "vs": []},
                              "proj": {"leaked_objects": leaked_objs, "outstanding_allocations": outstanding}});
            }
            other => panic!("unknown op {other}"),
        };
        self.alloc.0.borrow_mut().fail_next = false;
        json!({"ret": {"ok": ok, "vs": vs}, "proj": self.proj()})
    }
}

pub fn make(kind: &str, cap0: usize, profile: usize, nkeys: usize) -> Box<dyn Sut> {
    // "hmp" = CaoHashMap with plain (drop-free) values: same keys as "hm"
    make_with(kind, cap0, profile_keys(if kind == "hmp" { "hm" } else { kind }, cap0, profile), nkeys)
}

// ------------------------------------------------------------------ CaoLangTable driven as a plain map (slot-level cases)
struct Tab {
    // field order matters: the guard writes to its object when dropped, so it must go first
    t: cao_lang::vm::runtime::cao_lang_object::ObjectGcGuard,
    vm: cao_lang::prelude::Vm<'static, ()>,
    keys: Vec<i64>,
    nkeys: usize,
    nextv: u64,
}

impl Tab {
    fn new(keys: Vec<i64>, nkeys: usize) -> Self {
        let mut vm = cao_lang::prelude::Vm::new(()).unwrap();
        let t = vm.init_table().unwrap();
        Tab { t, vm, keys, nkeys, nextv: 1 }
    }
    fn proj(&self) -> J {
        use cao_lang::prelude::Value;
        let _ = &self.vm;
        let t = self.t.as_table().unwrap();
        let mut by_get: Vec<(usize, i64)> = vec![];
        for i in 0..self.nkeys {
            let k = Value::Integer(self.keys[i]);
            let g = t.get(&k).copied();
            if g.is_some() != t.contains(&k) {
                return json!({"inconsistent": "get/contains disagree", "key": key_name(i)});
            }
            if let Some(Value::Integer(v)) = g {
                by_get.push((i, v));
            } else if g.is_some() {
                return json!({"inconsistent": "a value that was never stored", "key": key_name(i)});
            }
        }
        let mut by_iter: Vec<(usize, i64)> = vec![];
        for (k, v) in t.iter() {
            match (k, v) {
                (Value::Integer(k), Value::Integer(v)) => match self.keys.iter().position(|x| x == k) {
                    Some(i) => by_iter.push((i, *v)),
                    None => return json!({"inconsistent": "iteration yields a key that was never inserted", "key": k}),
                },
                _ => return json!({"inconsistent": "iteration yields a foreign entry"}),
            }
        }
        by_iter.sort();
        if by_iter != by_get || t.len() != by_get.len() || t.is_empty() != by_get.is_empty() {
            return json!({"inconsistent": {"iter": by_iter, "lookups": by_get, "len": t.len()}});
        }
        let mut o = Map::new();
        let mut outk = Map::new();
        for i in 0..self.nkeys {
            outk.insert(key_name(i), json!(by_get.iter().filter(|(j, _)| *j == i).count()));
        }
        let outv: Vec<usize> = (1..self.nextv).map(|v| by_get.iter().filter(|(_, x)| *x == v as i64).count()).collect();
        for (i, v) in by_get {
            o.insert(key_name(i), json!(v));
        }
        json!({"m": obj_or_empty(o), "cl": {"has": false, "m": []}, "outv": outv, "outk": outk})
    }
}

impl Sut for Tab {
    fn exec(&mut self, op: &J) -> J {
        use cao_lang::prelude::Value;
        let name = op["op"].as_str().unwrap();
        let kname = op["k"].as_str().unwrap_or("-");
        let key = if kname == "-" { Value::Nil } else { Value::Integer(self.keys[key_index(kname)]) };
        let id = |v: Option<Value>| -> Vec<i64> {
            match v {
                Some(Value::Integer(i)) => vec![i],
                _ => vec![],
            }
        };
        let fresh = Value::Integer(self.nextv as i64);
        let t = self.t.as_table_mut().unwrap();
        let (ok, vs): (bool, Vec<i64>) = match name {
            "insert" => {
                self.nextv += 1;
                (t.insert(key, fresh).is_ok(), vec![])
            }
            "entry" => match t.get(&key).copied() {
                Some(v) => (true, id(Some(v))),
                None => {
                    self.nextv += 1;
                    (t.insert(key, fresh).is_ok(), id(Some(fresh)))
                }
            },
            "remove" => match t.get(&key).copied() {
                Some(v) => (t.remove(key).is_ok(), id(Some(v))),
                None => {
                    let _ = t.remove(key);
                    (false, vec![])
                }
            },
            "get" | "index" => match t.get(&key).copied() {
                Some(v) => (true, id(Some(v))),
                None => (false, vec![]),
            },
            "contains" => (t.contains(&key), vec![]),
            "clear" => {
                let ks: Vec<Value> = t.keys().to_vec();
                let mut ok = true;
                for k in ks {
                    ok &= t.remove(k).is_ok();
                }
                (ok, vec![])
            }
            other => panic!("unknown op {other}"),
        };
        json!({"ret": {"ok": ok, "vs": vs}, "proj": self.proj()})
    }
}

pub fn make_with(kind: &str, cap0: usize, reals: Vec<i64>, nkeys: usize) -> Box<dyn Sut> {
    if kind == "tab" {
        return Box::new(Tab::new(reals, nkeys));
    }
    let alloc = FailAlloc::default();
    let l: L = Default::default();
    match kind {
        "hmp" => Box::new(Hm::<PlainVal> {
            m: Some(CaoHashMap::with_capacity_in(cap0, alloc.clone()).expect("with_capacity_in")),
            cl: None,
            alloc,
            l,
            keys: reals,
            nkeys,
            nextv: 1,
        }),
        "hm" => Box::new(Hm::<ValTok> {
            m: Some(CaoHashMap::with_capacity_in(cap0, alloc.clone()).expect("with_capacity_in")),
            cl: None,
            alloc,
            l,
            keys: reals,
            nkeys,
            nextv: 1,
        }),
        "ht" => Box::new(Ht {
            m: Some(HandleTable::with_capacity(cap0, alloc.clone()).expect("with_capacity")),
            cl: None,
            alloc,
            l,
            keys: reals.iter().map(|k| Handle::from_u32(*k as u32)).collect(),
            nkeys,
            nextv: 1,
        }),
        other => panic!("unknown map kind {other}"),
    }
}

/// one TLC case is replayed under every key profile
pub fn replay_case(case: &J) -> J {
    let kind = case["kind"].as_str().expect("kind").to_string();
    let nkeys = case["nkeys"].as_u64().unwrap_or(6) as usize;
    let profiles = case["profiles"].as_u64().unwrap_or(3) as usize;
    if let Some(h) = case.get("hashes").and_then(|h| h.as_object()) {
        // a case of the slot-level model (OpenAddrGen): the real keys realise the residues the model chose
        let modulus = case["mod"].as_u64().expect("mod") as usize;
        let residues: Vec<usize> = (0..nkeys).map(|i| h[&key_name(i)].as_u64().expect("residue") as usize).collect();
        let reals = residue_keys(if kind == "hmp" { "hm" } else { &kind }, modulus, &residues);
        let k = kind.clone();
        return replay_generic(case, &move |c: &J| make_with(&k, c["init"].as_u64().unwrap() as usize, reals.clone(), nkeys));
    }
    let mut steps = 0;
    let mut diverged = 0;
    for p in 0..profiles {
        let k = kind.clone();
        let r = replay_generic(case, &move |c: &J| make(&k, c["init"].as_u64().unwrap() as usize, p, nkeys));
        steps += r["steps"].as_u64().unwrap_or(0);
        match r["status"].as_str() {
            Some("ok") => {}
            Some("diverged") => diverged += 1,
            _ => {
                let mut r = r;
                r["detail"]["profile"] = json!(p);
                r["steps"] = json!(steps);
                return r;
            }
        }
    }
    json!({"status": if diverged == profiles {"diverged"} else {"ok"}, "steps": steps})
}

/// Random histories -> ndjson trace (crash-isolated, see util::TraceWriter)
pub fn drive(args: &[String]) {
    let seed = arg_num(args, "--seed", 1);
    let cases = arg_num(args, "--cases", 50) as usize;
    let len = arg_num(args, "--len", 100) as usize;
    let kind = arg_val(args, "--kind").unwrap_or("hm").to_string();
    let out = arg_val(args, "--out").expect("--out");
    let maxcap = arg_num(args, "--maxcap", 16) as usize;
    let usekeys = arg_num(args, "--nkeys", NKEYS as u64) as usize;
    let nkeys = NKEYS;
    let with_fail = arg_num(args, "--fail", 1) == 1;
    let start = arg_num(args, "--start-case", 0) as usize;
    let append = arg_num(args, "--append", 0) == 1;
    let mut w = TraceWriter::open(out, append, 15_000);
    for c in start..cases {
        let mut rng = Rng::new(seed.wrapping_mul(1_000_003).wrapping_add(c as u64));
        let cap = rng.below(maxcap + 1);
        let profile = rng.below(4);
        let reset = json!({"op":"reset","k":"-","n":cap,"fail":false});
        w.line(json!({"case": c, "profile": profile, "op": reset, "ret": {"ok":true,"vs":[]}, "proj": []}));
        let cons = json!({"op":"construct","k":"-","n":cap,"fail":false});
        w.begin(c, &cons);
        let mut sut = match guarded(|| make(&kind, cap, profile, nkeys)) {
            Ok(s) => s,
            Err(msg) => {
                w.end(json!({"case": c, "op": cons, "ret": {"panic": msg}, "proj": {"panic": true}}));
                continue;
            }
        };
        let mut has_clone = false;
        let mut dead = false;
        for _ in 0..len {
            let k = key_name(rng.below(usekeys));
            let fail = with_fail && rng.chance(1, 12);
            let op = match rng.below(20) {
                0..=6 => json!({"op":"insert","k":k,"n":0,"fail":fail}),
                7..=9 => json!({"op":"remove","k":k,"n":0,"fail":false}),
                10 => json!({"op":"get","k":k,"n":0,"fail":false}),
                11 => json!({"op":"contains","k":k,"n":0,"fail":false}),
                12 => json!({"op":"get_mut","k":k,"n":0,"fail":false}),
                13..=15 => json!({"op":"entry","k":k,"n":0,"fail":fail}),
                // mostly a few slots; now and then hundreds or thousands (capacity rounding at sizes growth never requests)
                16 => json!({"op":"reserve","k":"-","n": if rng.below(4) == 0 { 290 + rng.below(2200) } else { rng.below(9) },"fail":fail}),
                17 => {
                    if rng.chance(1, 5) {
                        json!({"op":"clear","k":"-","n":0,"fail":false})
                    } else {
                        json!({"op":"index","k":k,"n":0,"fail":false})
                    }
                }
                18 => {
                    has_clone = true;
                    json!({"op":"clone","k":"-","n":0,"fail":false})
                }
                _ => {
                    if has_clone {
                        has_clone = false;
                        json!({"op":"dropclone","k":"-","n":0,"fail":false})
                    } else {
                        json!({"op":"get","k":k,"n":0,"fail":false})
                    }
                }
            };
            w.begin(c, &op);
            let (got, panicked) = exec_recorded(&mut sut, &op);
            w.end(json!({"case": c, "op": op, "ret": got["ret"], "proj": got["proj"]}));
            if panicked {
                dead = true;
                break;
            }
        }
        if dead {
            // the object may be in a broken state; do not run its destructor
            std::mem::forget(sut);
            continue;
        }
        let op = json!({"op":"drop","k":"-","n":0,"fail":false});
        w.begin(c, &op);
        let (got, _) = exec_recorded(&mut sut, &op);
        w.end(json!({"case": c, "op": op, "ret": got["ret"], "proj": got["proj"]}));
    }
    w.finish();
}
