//! C16: Module card-editing API against spec/ModuleEdit.tla
//!
//! An abstract card [lbl, cls, ch] is instantiated as a concrete `Card` whose `CardBody` variant is
//! chosen from the variants of its shape class by (lbl + variant seed); the label travels in
//! `Card::id`.  Every case is replayed for all variant seeds, so every one of the 43 card kinds
//! appears in every position class.
use crate::replay::*;
use cao_lang::compiler::*;
use crate::util::*;
use serde_json::{json, Value as J};

const OFFSET: u64 = 1 << 40;
pub const NVARIANTS: usize = 19;

fn mk_id(lbl: u64) -> CardId {
    CardId(OFFSET + lbl)
}

fn b2(ch: &mut Vec<Card>) -> Box<[Card; 2]> {
    let b = ch.pop().unwrap();
    let a = ch.pop().unwrap();
    Box::new([a, b])
}
fn b3(ch: &mut Vec<Card>) -> Box<[Card; 3]> {
    let c = ch.pop().unwrap();
    let b = ch.pop().unwrap();
    let a = ch.pop().unwrap();
    Box::new([a, b, c])
}
fn un(ch: &mut Vec<Card>) -> UnaryExpression {
    UnaryExpression { card: Box::new(ch.pop().unwrap()) }
}

fn build(c: &J, seed: usize) -> Card {
    let lbl = c["lbl"].as_u64().unwrap();
    let cls = c["cls"].as_str().unwrap();
    let mut ch: Vec<Card> = c["ch"].as_array().map(|a| a.iter().map(|x| build(x, seed)).collect()).unwrap_or_default();
    let v = lbl as usize + seed;
    let body = match cls {
        "leaf" => match v % 10 {
            0 => CardBody::ScalarInt(lbl as i64),
            1 => CardBody::ScalarFloat(0.5),
            2 => CardBody::StringLiteral("s".into()),
            3 => CardBody::ScalarNil,
            4 => CardBody::CreateTable,
            5 => CardBody::Abort,
            6 => CardBody::Function("f".into()),
            7 => CardBody::NativeFunction("n".into()),
            8 => CardBody::ReadVar("x".into()),
            _ => CardBody::Comment("c".into()),
        },
        "fix1" => match v % 6 {
            0 => CardBody::Not(un(&mut ch)),
            1 => CardBody::Return(un(&mut ch)),
            2 => CardBody::Len(un(&mut ch)),
            3 => CardBody::PopTable(un(&mut ch)),
            4 => CardBody::SetGlobalVar(Box::new(SetVar { name: "g".into(), value: ch.pop().unwrap() })),
            _ => CardBody::SetVar(Box::new(SetVar { name: "x".into(), value: ch.pop().unwrap() })),
        },
        "fix2" => match v % 19 {
            0 => CardBody::Add(b2(&mut ch)),
            1 => CardBody::Sub(b2(&mut ch)),
            2 => CardBody::Mul(b2(&mut ch)),
            3 => CardBody::Div(b2(&mut ch)),
            4 => CardBody::Less(b2(&mut ch)),
            5 => CardBody::LessOrEq(b2(&mut ch)),
            6 => CardBody::Equals(b2(&mut ch)),
            7 => CardBody::NotEquals(b2(&mut ch)),
            8 => CardBody::And(b2(&mut ch)),
            9 => CardBody::Or(b2(&mut ch)),
            10 => CardBody::Xor(b2(&mut ch)),
            11 => CardBody::GetProperty(b2(&mut ch)),
            12 => CardBody::IfTrue(b2(&mut ch)),
            13 => CardBody::IfFalse(b2(&mut ch)),
            14 => CardBody::While(b2(&mut ch)),
            15 => CardBody::Get(b2(&mut ch)),
            16 => CardBody::AppendTable(b2(&mut ch)),
            17 => {
                let body = ch.pop().unwrap();
                let n = ch.pop().unwrap();
                CardBody::Repeat(Box::new(Repeat { i: Some("i".into()), n, body }))
            }
            _ => {
                let body = ch.pop().unwrap();
                let it = ch.pop().unwrap();
                CardBody::ForEach(Box::new(ForEach { i: None, k: Some("k".into()), v: None, iterable: Box::new(it), body: Box::new(body) }))
            }
        },
        "fix3" => match v % 2 {
            0 => CardBody::IfElse(b3(&mut ch)),
            _ => CardBody::SetProperty(b3(&mut ch)),
        },
        "list" => match v % 5 {
            0 => CardBody::CompositeCard(Box::new(CompositeCard { ty: "t".into(), cards: std::mem::take(&mut ch) })),
            1 => CardBody::Closure(Box::new(Function { arguments: vec!["a".into()], cards: std::mem::take(&mut ch) })),
            2 => CardBody::Call(Box::new(StaticJump { args: Arguments(std::mem::take(&mut ch)), function_name: "f".into() })),
            3 => CardBody::CallNative(Box::new(CallNode { name: "n".into(), args: Arguments(std::mem::take(&mut ch)) })),
            _ => CardBody::Array(std::mem::take(&mut ch)),
        },
        "dyn" => {
            let f = ch.remove(0);
            CardBody::DynamicCall(Box::new(DynamicJump { args: Arguments(std::mem::take(&mut ch)), function: f }))
        }
        other => panic!("unknown class {other}"),
    };
    Card { id: mk_id(lbl), body }
}

fn class_of(c: &Card) -> &'static str {
    match &c.body {
        CardBody::ScalarInt(_)
        | CardBody::ScalarFloat(_)
        | CardBody::StringLiteral(_)
        | CardBody::ScalarNil
        | CardBody::CreateTable
        | CardBody::Abort
        | CardBody::Function(_)
        | CardBody::NativeFunction(_)
        | CardBody::ReadVar(_)
        | CardBody::Comment(_) => "leaf",
        CardBody::Not(_) | CardBody::Return(_) | CardBody::Len(_) | CardBody::PopTable(_) | CardBody::SetGlobalVar(_) | CardBody::SetVar(_) => "fix1",
        CardBody::IfElse(_) | CardBody::SetProperty(_) => "fix3",
        CardBody::CompositeCard(_) | CardBody::Closure(_) | CardBody::Call(_) | CardBody::CallNative(_) | CardBody::Array(_) => "list",
        CardBody::DynamicCall(_) => "dyn",
        _ => "fix2",
    }
}

/// abstract projection of a concrete card; child enumeration, child count and child lookup must agree
fn project(c: &Card) -> Result<J, J> {
    let kids: Vec<&Card> = c.iter_children().collect();
    if kids.len() as u32 != c.num_children() {
        return Err(json!({"inconsistent": "num_children != |iter_children|", "card": c.name(), "num_children": c.num_children(), "iter": kids.len()}));
    }
    for (i, k) in kids.iter().enumerate() {
        match c.get_child(i) {
            Some(g) if std::ptr::eq(g, *k) => {}
            _ => return Err(json!({"inconsistent": "get_child(i) is not the i-th enumerated child", "card": c.name(), "i": i})),
        }
    }
    if c.get_child(kids.len()).is_some() {
        return Err(json!({"inconsistent": "get_child(len) is Some", "card": c.name()}));
    }
    let mut ch = vec![];
    for k in kids {
        ch.push(project(k)?);
    }
    let lbl = if c.id.0 >= OFFSET { c.id.0 - OFFSET } else { 0 };
    Ok(json!({"lbl": lbl, "cls": class_of(c), "ch": ch}))
}

struct Mod {
    m: Module,
    seed: usize,
}

fn to_index(ix: &J) -> CardIndex {
    let p: Vec<u32> = ix["p"].as_array().unwrap().iter().map(|x| x.as_u64().unwrap() as u32).collect();
    CardIndex::from_slice(ix["f"].as_u64().unwrap() as usize, &p)
}

impl Mod {
    fn new(init: &J, seed: usize) -> Self {
        let mut m = Module::default();
        for (i, f) in init["fns"].as_array().unwrap().iter().enumerate() {
            let cards: Vec<Card> = f.as_array().unwrap().iter().map(|c| build(c, seed)).collect();
            m.functions.push((format!("f{i}"), Function { arguments: vec![], cards }));
        }
        Mod { m, seed }
    }
    fn proj(&mut self) -> J {
        let mut fns = vec![];
        for (_, f) in self.m.functions.iter() {
            let mut cs = vec![];
            for c in f.cards.iter() {
                match project(c) {
                    Ok(p) => cs.push(p),
                    Err(e) => return e,
                }
            }
            fns.push(J::Array(cs));
        }
        // walk: every card exactly once, each with an index that resolves to that same card
        let mut visited: Vec<(String, u64)> = vec![];
        let mut bad: Option<J> = None;
        let snapshot = self.m.clone();
        self.m.walk_cards(|ix, card| {
            match snapshot.get_card(ix) {
                Ok(c) if c.id == card.id && c.name() == card.name() => {}
                _ => bad = Some(json!({"inconsistent": "walk index does not resolve to the visited card", "index": ix.to_string()})),
            }
            visited.push((ix.to_string(), card.id.0));
        });
        if let Some(b) = bad {
            return b;
        }
        let mut idx: Vec<&String> = visited.iter().map(|v| &v.0).collect();
        idx.sort();
        let n = idx.len();
        idx.dedup();
        fn count(j: &J) -> usize {
            1 + j["ch"].as_array().map(|a| a.iter().map(count).sum::<usize>()).unwrap_or(0)
        }
        let total: usize = fns.iter().map(|f| f.as_array().unwrap().iter().map(count).sum::<usize>()).sum();
        if idx.len() != n || n != total {
            return json!({"inconsistent": "walk does not visit every card exactly once", "visited": n, "distinct": idx.len(), "cards": total});
        }
        json!({"fns": fns})
    }
}

impl Sut for Mod {
    fn exec(&mut self, op: &J) -> J {
        let a = to_index(&op["a"]);
        let name = op["op"].as_str().unwrap();
        let (ok, cards): (bool, Vec<J>) = match name {
            "get" => match self.m.get_card(&a) {
                Ok(c) => (true, vec![project(c).unwrap_or_else(|e| e)]),
                Err(_) => (false, vec![]),
            },
            "insert" => (self.m.insert_card(&a, build(&op["c"], self.seed)).is_ok(), vec![]),
            "remove" => match self.m.remove_card(&a) {
                Ok(c) => (true, vec![project(&c).unwrap_or_else(|e| e)]),
                Err(_) => (false, vec![]),
            },
            "replace" => match self.m.replace_card(&a, build(&op["c"], self.seed)) {
                Ok(c) => (true, vec![project(&c).unwrap_or_else(|e| e)]),
                Err(_) => (false, vec![]),
            },
            "swap" => (self.m.swap_cards(&a, &to_index(&op["b"])).is_ok(), vec![]),
            other => panic!("unknown op {other}"),
        };
        json!({"ret": {"ok": ok, "cards": cards}, "proj": self.proj()})
    }
}

pub fn replay_case(case: &J) -> J {
    let mut steps = 0;
    for seed in 0..NVARIANTS {
        let r = replay_generic(case, &move |c: &J| Box::new(Mod::new(&c["init"], seed)) as Box<dyn Sut>);
        steps += r["steps"].as_u64().unwrap_or(0);
        if r["status"] != "ok" {
            let mut r = r;
            r["detail"]["variant_seed"] = json!(seed);
            r["steps"] = json!(steps);
            return r;
        }
    }
    json!({"status": "ok", "steps": steps})
}

// ------------------------------------------------------------------ impl -> spec driver
fn gen_card(rng: &mut Rng, next: &mut u64, depth: usize) -> J {
    let lbl = *next;
    *next += 1;
    let cls = if depth == 0 { "leaf" } else { *rng.pick(&["leaf", "leaf", "fix1", "fix2", "fix2", "fix3", "list", "list", "dyn"]) };
    let n = match cls {
        "leaf" => 0,
        "fix1" => 1,
        "fix2" => 2,
        "fix3" => 3,
        "list" => rng.below(4),
        _ => 1 + rng.below(3),
    };
    let ch: Vec<J> = (0..n).map(|_| gen_card(rng, next, depth - 1)).collect();
    json!({"lbl": lbl, "cls": cls, "ch": ch})
}

fn all_indices(m: &J) -> Vec<J> {
    fn rec(c: &J, f: usize, p: &mut Vec<u64>, out: &mut Vec<J>) {
        out.push(json!({"f": f, "p": p.clone()}));
        for (k, ch) in c["ch"].as_array().unwrap().iter().enumerate() {
            p.push(k as u64);
            rec(ch, f, p, out);
            p.pop();
        }
    }
    let mut out = vec![];
    for (f, cards) in m["fns"].as_array().unwrap().iter().enumerate() {
        for (k, c) in cards.as_array().unwrap().iter().enumerate() {
            let mut p = vec![k as u64];
            rec(c, f, &mut p, &mut out);
        }
    }
    out
}

pub fn drive(args: &[String]) {
    let seed = arg_num(args, "--seed", 1);
    let cases = arg_num(args, "--cases", 40) as usize;
    let len = arg_num(args, "--len", 40) as usize;
    let out = arg_val(args, "--out").expect("--out");
    let start = arg_num(args, "--start-case", 0) as usize;
    let append = arg_num(args, "--append", 0) == 1;
    let mut w = TraceWriter::open(out, append, 15_000);
    let noix = json!({"f": 0, "p": []});
    let nocard = json!({"lbl": 0, "cls": "leaf", "ch": []});
    for c in start..cases {
        let mut rng = Rng::new(seed.wrapping_mul(1_000_003).wrapping_add(c as u64));
        let mut next = 1u64;
        let nf = 1 + rng.below(3);
        let fns: Vec<J> = (0..nf)
            .map(|_| {
                let n = rng.below(4);
                J::Array((0..n).map(|_| gen_card(&mut rng, &mut next, 3)).collect())
            })
            .collect();
        let init = json!({"fns": fns});
        let vseed = rng.below(NVARIANTS);
        w.line(json!({"case": c, "variant_seed": vseed, "init": init, "op": {"op":"reset","a":noix,"b":noix,"c":nocard},
                      "ret": {"ok": true, "cards": []}, "proj": init}));
        let mut sut: Box<dyn Sut> = Box::new(Mod::new(&init, vseed));
        let mut cur = init.clone();
        for _ in 0..len {
            let ixs = all_indices(&cur);
            let pick_ix = |rng: &mut Rng| -> J {
                if ixs.is_empty() || rng.chance(1, 6) {
                    // possibly invalid
                    // (now and then the path is empty: a function, but no card in it)
                    json!({"f": rng.below(nf + 1), "p": (0..rng.below(4)).map(|_| rng.below(4) as u64).collect::<Vec<_>>()})
                } else {
                    let mut ix = rng.pick(&ixs).clone();
                    if rng.chance(1, 4) {
                        // a child position (possibly one past the end) of an existing card
                        ix["p"].as_array_mut().unwrap().push(json!(rng.below(4)));
                    }
                    ix
                }
            };
            let a = pick_ix(&mut rng);
            let nd = 1 + rng.below(2);
            let newc = gen_card(&mut rng, &mut next, nd);
            let op = match rng.below(10) {
                0 => json!({"op":"get","a":a,"b":noix,"c":nocard}),
                1..=3 => json!({"op":"insert","a":a,"b":noix,"c":newc}),
                4 | 5 => json!({"op":"remove","a":a,"b":noix,"c":nocard}),
                6 => json!({"op":"replace","a":a,"b":noix,"c":newc}),
                _ => {
                    let b = pick_ix(&mut rng);
                    json!({"op":"swap","a":a,"b":b,"c":nocard})
                }
            };
            w.begin(c, &op);
            let (got, panicked) = exec_recorded(&mut sut, &op);
            if got["proj"]["fns"].is_array() {
                cur = got["proj"].clone();
            }
            w.end(json!({"case": c, "op": op, "ret": got["ret"], "proj": got["proj"]}));
            if panicked {
                break;
            }
        }
    }
    w.finish();
}
