//! C08: name resolution configurations printed by spec/NameRes.tla, built as real Modules
use cao_lang::compiler::*;
use cao_lang::prelude::*;
use serde_json::{json, Value as J};

fn segs(j: &J) -> Vec<String> {
    j.as_array().map(|a| a.iter().map(|x| x.as_str().unwrap().to_string()).collect()).unwrap_or_default()
}

fn who_fn(full: &str) -> Function {
    Function::default().with_card(Card::set_global_var("who", CardBody::StringLiteral(full.to_string())))
}

fn module_at<'a>(root: &'a mut Module, ns: &[String]) -> &'a mut Module {
    let mut m = root;
    for s in ns {
        let pos = m.submodules.iter().position(|(n, _)| n == s).expect("module exists");
        m = &mut m.submodules[pos].1;
    }
    m
}

pub fn run_case(case: &J) -> J {
    let conf = &case["conf"];
    let ns = segs(&conf["ns"]);
    let name = segs(&conf["name"]).join(".");
    let flaw = conf["flaw"].as_str().unwrap_or("none");
    // fixed module tree: root { a { b }, c }
    let mut root = Module::default();
    let mut a = Module::default();
    a.submodules.push(("b".into(), Module::default()));
    root.submodules.push(("a".into(), a));
    root.submodules.push(("c".into(), Module::default()));
    for f in conf["fns"].as_array().unwrap() {
        let path = segs(f);
        let (fname, modpath) = path.split_last().unwrap();
        module_at(&mut root, modpath).functions.push((fname.clone(), who_fn(&path.join("."))));
    }
    // the call site
    let site = Function::default().with_card(Card::call_function(name.clone(), vec![]));
    {
        let m = module_at(&mut root, &ns);
        m.functions.push(("site".into(), site));
        m.imports = conf["imports"].as_array().unwrap().iter().map(|i| segs(i).join(".")).collect();
    }
    // imports of the module that encloses the call site's module (they must not reach into it)
    if let Some(pi) = conf.get("pimps").and_then(|x| x.as_array()) {
        if !ns.is_empty() {
            let parent = module_at(&mut root, &ns[..ns.len() - 1]);
            parent.imports = pi.iter().map(|i| segs(i).join(".")).collect();
        }
    }
    let mut site_path = ns.clone();
    site_path.push("site".into());
    let mut main_name = "main";
    match flaw {
        "none" | "same-name-in-two-modules-is-fine" => {}
        "duplicate-function" => root.functions.push(("f".into(), who_fn("f#2"))),
        "duplicate-function-in-submodule" => module_at(&mut root, &["a".to_string()]).functions.push(("f".into(), who_fn("a.f#2"))),
        "bad-function-name-dot" => root.functions.push(("x.y".into(), who_fn("x.y"))),
        "bad-function-name-empty" => root.functions.push(("".into(), who_fn(""))),
        "bad-function-name-super" => root.functions.push(("super".into(), who_fn("super"))),
        "bad-function-name-dash" => root.functions.push(("f-x".into(), who_fn("f-x"))),
        "bad-module-name-dot" => {
            let mut m = Module::default();
            m.functions.push(("f".into(), who_fn("m.n.f")));
            root.submodules.push(("m.n".into(), m));
        }
        "bad-module-name-empty" => {
            let mut m = Module::default();
            m.functions.push(("f".into(), who_fn(".f")));
            root.submodules.push(("".into(), m));
        }
        "bad-module-name-super" => {
            let mut m = Module::default();
            m.functions.push(("f".into(), who_fn("super.f")));
            root.submodules.push(("super".into(), m));
        }
        "user-module-std" => root.submodules.push(("std".into(), Module::default())),
        "duplicate-module" => root.submodules.push(("a".into(), Module::default())),
        // the same module name twice further down: below a module that has one submodule only, and directly below `a`
        "duplicate-module-nested" => {
            let (mut p, mut q, mut x1, mut x2) = (Module::default(), Module::default(), Module::default(), Module::default());
            x1.functions.push(("g1".into(), who_fn("p.q.x.g1")));
            x2.functions.push(("g2".into(), who_fn("p.q.x.g2")));
            q.submodules.push(("x".into(), x1));
            q.submodules.push(("x".into(), x2));
            p.submodules.push(("q".into(), q));
            root.submodules.push(("p".into(), p));
        }
        "duplicate-module-below-a" => {
            let (mut d1, mut d2) = (Module::default(), Module::default());
            d1.functions.push(("g1".into(), who_fn("a.d.g1")));
            d2.functions.push(("g2".into(), who_fn("a.d.g2")));
            let a = module_at(&mut root, &["a".to_string()]);
            a.submodules.push(("d".into(), d1));
            a.submodules.push(("d".into(), d2));
        }
        "no-main" => main_name = "start",
        other => panic!("unknown flaw {other}"),
    }
    root.functions.insert(0, (main_name.into(), Function::default().with_card(Card::call_function(site_path.join("."), vec![]))));
    let outcome = match compile(root, None) {
        Err(e) => {
            let kind = format!("{:?}", e.payload);
            json!({"cerr": kind.split(|c: char| !c.is_alphanumeric()).next().unwrap_or("")})
        }
        Ok(prog) => {
            let mut vm = Vm::new(()).unwrap();
            match vm.run(&prog) {
                Err(e) => json!({"rerr": format!("{:?}", e.payload)}),
                Ok(()) => match vm.read_var_by_name("who", &prog.variables) {
                    Some(v) => json!({"run": unsafe { v.as_str() }.unwrap_or("<not a string>")}),
                    None => json!({"run": "<nothing ran>"}),
                },
            }
        }
    };
    let admitted = case["expected"].as_array().unwrap().iter().any(|e| {
        if e["cerr"].as_bool().unwrap_or(false) {
            outcome.get("cerr").is_some()
        } else {
            outcome.get("run").and_then(|r| r.as_str()) == Some(segs(&e["run"]).join(".").as_str())
        }
    });
    if admitted {
        json!({"status": "ok", "steps": 1, "outcome": outcome})
    } else {
        json!({"status": "violation", "steps": 1,
               "detail": {"kind": "resolution-mismatch", "site": flaw, "conf": conf, "expected": case["expected"], "got": outcome}})
    }
}
