//! Generic spec -> implementation replay for the container-style specifications.
//!
//! A case printed by a `*Gen.tla` module is
//!   {kind, init, prefix: [{op, allowed: [{ret, proj}], took: {ret, proj}}], fan: [{op, allowed}]}
//! `prefix` is the path TLC followed to some abstract state, `fan` is every operation the
//! specification enables there.  Every executed operation's (return value, projected state) must be
//! a member of `allowed`.  Where the specification is nondeterministic and the implementation takes
//! an admitted branch other than the one TLC followed, the case ends as `diverged` (not an error).
use crate::util::guarded;
use serde_json::{json, Value as J};

pub trait Sut {
    /// execute one operation, return {"ret": .., "proj": ..}
    fn exec(&mut self, op: &J) -> J;
}

pub fn replay_generic(case: &J, make: &dyn Fn(&J) -> Box<dyn Sut>) -> J {
    let prefix = case["prefix"].as_array().cloned().unwrap_or_default();
    let fan = case["fan"].as_array().cloned().unwrap_or_default();
    let mut steps = 0u64;
    let ops_of = |p: &Vec<J>| p.iter().map(|s| s["op"].clone()).collect::<Vec<_>>();
    // Ok(Some(sut)): prefix followed; Ok(None): implementation took another admitted branch
    let run_prefix = |steps: &mut u64| -> Result<Option<Box<dyn Sut>>, J> {
        let mut sut = match guarded(|| make(case)) {
            Ok(s) => s,
            Err(msg) => return Err(json!({"kind":"panic","site":"construct","msg":msg,"init":case["init"]})),
        };
        for (k, st) in prefix.iter().enumerate() {
            let got = match guarded(|| sut.exec(&st["op"])) {
                Ok(g) => g,
                Err(msg) => {
                    std::mem::forget(sut);
                    return Err(json!({"kind":"panic","site":st["op"]["op"],"op":st["op"],"msg":msg,
                        "init":case["init"],"history":ops_of(&prefix)[..k].to_vec()}));
                }
            };
            *steps += 1;
            let allowed = st["allowed"].as_array().unwrap();
            if !allowed.iter().any(|a| *a == got) {
                return Err(json!({"kind":"outcome-not-admitted","site":st["op"]["op"],"op":st["op"],"got":got,
                    "allowed":allowed,"init":case["init"],"history":ops_of(&prefix)[..k].to_vec()}));
            }
            // only the state decides whether the path can be followed further
            if got["proj"] != st["took"]["proj"] {
                return Ok(None);
            }
        }
        Ok(Some(sut))
    };
    match run_prefix(&mut steps) {
        Err(v) => return json!({"status":"violation","detail":v,"steps":steps}),
        Ok(None) => return json!({"status":"diverged","steps":steps}),
        Ok(Some(mut sut)) => {
            for (j, f) in fan.iter().enumerate() {
                if j > 0 {
                    sut = match run_prefix(&mut steps) {
                        Ok(Some(s)) => s,
                        Ok(None) => {
                            return json!({"status":"violation","steps":steps,
                            "detail":{"kind":"nondeterministic-implementation","site":"prefix","init":case["init"],
                                      "history":ops_of(&prefix)}})
                        }
                        Err(v) => return json!({"status":"violation","detail":v,"steps":steps}),
                    };
                }
                let got = match guarded(|| sut.exec(&f["op"])) {
                    Ok(g) => g,
                    Err(msg) => {
                        std::mem::forget(sut);
                        return json!({"status":"violation","steps":steps,
                            "detail":{"kind":"panic","site":f["op"]["op"],"op":f["op"],"msg":msg,
                                      "init":case["init"],"history":ops_of(&prefix)}});
                    }
                };
                steps += 1;
                let allowed = f["allowed"].as_array().unwrap();
                if !allowed.iter().any(|a| *a == got) {
                    return json!({"status":"violation","steps":steps,
                        "detail":{"kind":"outcome-not-admitted","site":f["op"]["op"],"op":f["op"],"got":got,
                                  "allowed":allowed,"init":case["init"],"history":ops_of(&prefix)}});
                }
            }
        }
    }
    json!({"status":"ok","steps":steps})
}

/// Execute an op for a recorded trace; a panic is recorded as data (no spec action matches it).
pub fn exec_recorded(sut: &mut Box<dyn Sut>, op: &J) -> (J, bool) {
    match guarded(|| sut.exec(op)) {
        Ok(g) => (g, false),
        Err(msg) => (json!({"ret": {"panic": msg}, "proj": {"panic": true}}), true),
    }
}
