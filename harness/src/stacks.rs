//! C14: ValueStack / BoundedStack against spec/ValueStack.tla and spec/BoundedStack.tla
use crate::replay::*;
use crate::util::*;
use cao_lang::collections::bounded_stack::BoundedStack;
use cao_lang::collections::value_stack::ValueStack;
use cao_lang::prelude::Value;
use serde_json::{json, Value as J};
use std::cell::RefCell;
use std::collections::BTreeMap;
use std::io::Write;
use std::rc::Rc;

fn val_of(name: &str) -> Value {
    match name {
        "nil" => Value::Nil,
        "a" => Value::Integer(1),
        "b" => Value::Integer(2),
        "c" => Value::Real(0.5),
        other => panic!("unknown model value {other}"),
    }
}

fn name_of(v: Value) -> String {
    match v {
        Value::Nil => "nil".into(),
        Value::Integer(1) => "a".into(),
        Value::Integer(2) => "b".into(),
        Value::Real(r) if r == 0.5 => "c".into(),
        other => format!("?{other:?}"),
    }
}

fn names(vs: &[Value]) -> J {
    J::Array(vs.iter().map(|v| J::String(name_of(*v))).collect())
}

// ------------------------------------------------------------------ ValueStack
struct Vs(ValueStack);

impl Sut for Vs {
    fn exec(&mut self, op: &J) -> J {
        let s = &mut self.0;
        let i = op["i"].as_u64().unwrap_or(0) as usize;
        let v = op["v"].as_str().unwrap_or("nil");
        let (ok, vs): (bool, Vec<Value>) = match op["op"].as_str().unwrap() {
            "push" => (s.push(val_of(v)).is_ok(), vec![]),
            "pop" => (true, vec![s.pop()]),
            "pop_n" => (
                true,
                match i {
                    0 => s.pop_n::<0>().to_vec(),
                    1 => s.pop_n::<1>().to_vec(),
                    2 => s.pop_n::<2>().to_vec(),
                    3 => s.pop_n::<3>().to_vec(),
                    4 => s.pop_n::<4>().to_vec(),
                    5 => s.pop_n::<5>().to_vec(),
                    _ => panic!("pop_n arity not supported by the harness"),
                },
            ),
            "pop_w_offset" => (true, vec![s.pop_w_offset(i)]),
            "set" => match s.set(i, val_of(v)) {
                Ok(old) => (true, vec![old]),
                Err(_) => (false, vec![]),
            },
            "get" => (true, vec![s.get(i)]),
            "last" => (true, vec![s.last()]),
            "peek_last" => (true, vec![s.peek_last(i)]),
            "clear" => {
                s.clear();
                (true, vec![])
            }
            "clear_until" => (true, vec![s.clear_until(i)]),
            other => panic!("unknown op {other}"),
        };
        // projection: as_slice, iter and len must agree
        let slice = s.as_slice().to_vec();
        let it: Vec<Value> = s.iter().collect();
        let mut proj = names(&slice);
        if names(&it) != proj || s.len() != slice.len() || s.is_empty() != slice.is_empty() {
            proj = json!({"inconsistent": {"as_slice": names(&slice), "iter": names(&it), "len": s.len()}});
        }
        json!({"ret": {"ok": ok, "vs": names(&vs)}, "proj": proj})
    }
}

// ------------------------------------------------------------------ BoundedStack
type Ledger = Rc<RefCell<BTreeMap<u64, u64>>>;
struct Tok {
    id: u64,
    ledger: Ledger,
}
impl Drop for Tok {
    fn drop(&mut self) {
        *self.ledger.borrow_mut().entry(self.id).or_insert(0) += 1;
    }
}

struct Bs {
    s: Option<BoundedStack<Tok>>,
    ledger: Ledger,
    next: u64,
}

impl Bs {
    fn new(cap: usize) -> Self {
        Bs {
            s: Some(BoundedStack::new(cap)),
            ledger: Default::default(),
            next: 1,
        }
    }
    fn proj(&self) -> J {
        let items: Vec<u64> = match &self.s {
            Some(s) => s.iter().map(|t| t.id).collect(),
            None => vec![],
        };
        let mut back: Vec<u64> = match &self.s {
            Some(s) => s.iter_backwards().map(|t| t.id).collect(),
            None => vec![],
        };
        back.reverse();
        let len_ok = match &self.s {
            Some(s) => s.len() == items.len() && s.is_empty() == items.is_empty(),
            None => true,
        };
        if back != items || !len_ok {
            return json!({"inconsistent": {"iter": items, "iter_backwards": back}});
        }
        // drops[i] = how many times element i+1 has been dropped so far
        let l = self.ledger.borrow();
        let drops: Vec<u64> = (1..self.next).map(|id| l.get(&id).copied().unwrap_or(0)).collect();
        json!({"s": items, "drops": drops})
    }
}

impl Sut for Bs {
    fn exec(&mut self, op: &J) -> J {
        let name = op["op"].as_str().unwrap();
        let (ok, vs): (bool, Vec<u64>) = match name {
            "push" => {
                let id = self.next;
                self.next += 1;
                let t = Tok {
                    id,
                    ledger: self.ledger.clone(),
                };
                // push consumes the element; on Full the Err variant carries nothing, so a rejected
                // element is dropped by the callee (exactly once, like any other element)
                let r = self.s.as_mut().unwrap().push(t);
                (r.is_ok(), vec![])
            }
            "pop" => match self.s.as_mut().unwrap().pop() {
                Some(t) => {
                    let id = t.id;
                    drop(t);
                    (true, vec![id])
                }
                None => (false, vec![]),
            },
            "last" => match self.s.as_ref().unwrap().last() {
                Some(t) => (true, vec![t.id]),
                None => (false, vec![]),
            },
            "last_mut" => match self.s.as_mut().unwrap().last_mut() {
                Some(t) => (true, vec![t.id]),
                None => (false, vec![]),
            },
            "clear" => {
                self.s.as_mut().unwrap().clear();
                (true, vec![])
            }
            "drop" => {
                self.s = None;
                (true, vec![])
            }
            other => panic!("unknown op {other}"),
        };
        json!({"ret": {"ok": ok, "vs": vs}, "proj": self.proj()})
    }
}

fn make(kind: &str, init: &J) -> Box<dyn Sut> {
    let cap = init.as_u64().expect("init capacity") as usize;
    match kind {
        "vs" => Box::new(Vs(ValueStack::new(cap))),
        "bs" => Box::new(Bs::new(cap)),
        other => panic!("unknown stack kind {other}"),
    }
}

pub fn replay_case(case: &J) -> J {
    let kind = case["kind"].as_str().unwrap_or("vs").to_string();
    replay_generic(case, &move |c: &J| make(&kind, &c["init"]))
}

/// Random histories -> ndjson trace {case, op, ret, proj}; every case starts with a reset record.
pub fn drive(args: &[String]) {
    let seed = arg_num(args, "--seed", 1);
    let cases = arg_num(args, "--cases", 50) as usize;
    let len = arg_num(args, "--len", 60) as usize;
    let kind = arg_val(args, "--kind").unwrap_or("vs").to_string();
    let out = arg_val(args, "--out").expect("--out");
    let maxcap = arg_num(args, "--maxcap", 8) as usize;
    let mut w = std::io::BufWriter::new(std::fs::File::create(out).unwrap());
    let mut rng = Rng::new(seed);
    let vals = ["nil", "a", "b"];
    for c in 0..cases {
        let cap = 1 + rng.below(maxcap);
        let mut sut = make(&kind, &json!(cap));
        writeln!(
            w,
            "{}",
            json!({"case": c, "op": {"op":"reset","i":cap,"v":"nil"}, "ret": {"ok":true,"vs":[]}, "proj": []})
        )
        .unwrap();
        let mut height = 0usize;
        for _ in 0..len {
            let op = if kind == "vs" {
                let i = rng.below(cap + 2);
                let v = *rng.pick(&vals);
                match rng.below(12) {
                    0..=3 => json!({"op":"push","i":0,"v":v}),
                    4 => json!({"op":"pop","i":0,"v":"nil"}),
                    5 => json!({"op":"pop_n","i":rng.below(5),"v":"nil"}),
                    6 => json!({"op":"pop_w_offset","i":i,"v":"nil"}),
                    7 => json!({"op":"set","i":i,"v":v}),
                    8 => json!({"op":"get","i":i,"v":"nil"}),
                    9 => json!({"op":"peek_last","i":i,"v":"nil"}),
                    10 => json!({"op":"clear_until","i":rng.below(height + 1),"v":"nil"}),
                    _ => {
                        if rng.chance(1, 4) {
                            json!({"op":"clear","i":0,"v":"nil"})
                        } else {
                            json!({"op":"last","i":0,"v":"nil"})
                        }
                    }
                }
            } else {
                match rng.below(10) {
                    0..=4 => json!({"op":"push","i":0,"v":"nil"}),
                    5 | 6 => json!({"op":"pop","i":0,"v":"nil"}),
                    7 => json!({"op":"last","i":0,"v":"nil"}),
                    8 => json!({"op":"last_mut","i":0,"v":"nil"}),
                    _ => json!({"op":"clear","i":0,"v":"nil"}),
                }
            };
            let (got, _) = exec_recorded(&mut sut, &op);
            if let Some(a) = got["proj"].as_array() {
                height = a.len();
            }
            writeln!(w, "{}", json!({"case": c, "op": op, "ret": got["ret"], "proj": got["proj"]})).unwrap();
        }
        if kind == "bs" {
            let op = json!({"op":"drop","i":0,"v":"nil"});
            let (got, _) = exec_recorded(&mut sut, &op);
            writeln!(w, "{}", json!({"case": c, "op": op, "ret": got["ret"], "proj": got["proj"]})).unwrap();
        }
    }
    w.flush().unwrap();
}
