//! C07 (host API half): CaoLangTable against spec/TableSpec.tla
use crate::replay::*;
use crate::util::*;
use cao_lang::prelude::*;
use cao_lang::vm::runtime::cao_lang_object::{CaoLangObject, ObjectGcGuard};
use serde_json::{json, Value as J};
use std::ptr::NonNull;

pub fn value_to_json(v: Value) -> J {
    match v {
        Value::Nil => json!({"t":"nil","i":0,"s":""}),
        Value::Integer(i) => json!({"t":"int","i":i,"s":""}),
        Value::Real(r) => json!({"t":"real","i":0,"s":format!("{}", r)}),
        Value::Object(_) => match unsafe { v.as_str() } {
            Some(s) => json!({"t":"str","i":0,"s":s}),
            None => json!({"t":"obj","i":0,"s":v.type_name()}),
        },
    }
}

pub fn json_to_value(vm: &mut Vm<()>, j: &J) -> Value {
    match j["t"].as_str().unwrap_or("nil") {
        "nil" => Value::Nil,
        "int" => Value::Integer(j["i"].as_i64().unwrap()),
        "real" => Value::Real(j["s"].as_str().unwrap().parse::<f64>().unwrap()),
        // a fresh string object for every use: keys must be equal by content
        "str" => Value::Object(vm.init_string(j["s"].as_str().unwrap()).unwrap().into_inner()),
        other => panic!("unknown value tag {other}"),
    }
}

fn guard_ptr(g: &ObjectGcGuard) -> NonNull<CaoLangObject> {
    let r: &CaoLangObject = g;
    NonNull::from(r)
}

struct Tabs {
    // field order matters: the guards write to their objects when dropped, so they must go first
    tabs: Vec<ObjectGcGuard>,
    vm: Vm<'static, ()>,
}

impl Tabs {
    fn new(n: usize) -> Self {
        Self::with_limit(n, None)
    }
    /// `limit`: memory limit of the VM that owns the tables (set before anything is allocated): insertions that need
    /// more are refused
    fn with_limit(n: usize, limit: Option<usize>) -> Self {
        let mut vm = Vm::new(()).unwrap();
        if let Some(l) = limit {
            vm.runtime_data.set_memory_limit(l);
        }
        let mut tabs = vec![];
        for _ in 0..n {
            let t = vm.init_table().unwrap();
            // keep the table (and through it its string keys) reachable for the collector
            vm.stack_push(Value::Object(guard_ptr(&t))).unwrap();
            tabs.push(t);
        }
        Tabs { tabs, vm }
    }
    fn proj(&self) -> J {
        let mut out = vec![];
        for g in &self.tabs {
            let t = g.as_table().unwrap();
            let by_iter: Vec<J> = t
                .iter()
                .map(|(k, v)| json!({"k": value_to_json(*k), "v": value_to_json(*v)}))
                .collect();
            let keys: Vec<J> = t.keys().iter().map(|k| value_to_json(*k)).collect();
            let iter_keys: Vec<J> = by_iter.iter().map(|e| e["k"].clone()).collect();
            let nth: Vec<J> = (0..t.len()).map(|i| value_to_json(t.nth_key(i))).collect();
            if keys != iter_keys || nth != keys || t.len() != by_iter.len() || t.is_empty() != by_iter.is_empty() {
                return json!({"inconsistent": {"iter": by_iter, "keys": keys, "nth_key": nth, "len": t.len()}});
            }
            out.push(J::Array(by_iter));
        }
        J::Array(out)
    }
}

impl Sut for Tabs {
    fn exec(&mut self, op: &J) -> J {
        let ti = op["t"].as_u64().unwrap() as usize - 1;
        let name = op["op"].as_str().unwrap();
        let n = op["n"].as_u64().unwrap_or(0) as usize;
        let k = json_to_value(&mut self.vm, &op["k"]);
        let v = json_to_value(&mut self.vm, &op["v"]);
        let t = self.tabs[ti].as_table_mut().unwrap();
        let (ok, vs): (bool, Vec<J>) = match name {
            "set" => (t.insert(k, v).is_ok(), vec![]),
            "get" => (true, vec![value_to_json(t.get(&k).copied().unwrap_or(Value::Nil))]),
            "has" => (t.contains(&k), vec![]),
            "len" => (true, vec![value_to_json(Value::Integer(t.len() as i64))]),
            "append" => (t.append(v).is_ok(), vec![]),
            "pop" => match t.pop() {
                Ok(v) => (true, vec![value_to_json(v)]),
                Err(_) => (false, vec![]),
            },
            "remove" => (t.remove(k).is_ok(), vec![]),
            "nth" => {
                let key = t.nth_key(n);
                let val = t.get(&key).copied().unwrap_or(Value::Nil);
                (true, vec![value_to_json(key), value_to_json(val)])
            }
            other => panic!("unknown op {other}"),
        };
        json!({"ret": {"ok": ok, "vs": vs}, "proj": self.proj()})
    }
}

pub fn replay_case(case: &J) -> J {
    replay_generic(case, &|c: &J| Box::new(Tabs::new(c["init"].as_u64().unwrap() as usize)) as Box<dyn Sut>)
}

fn int(n: i64) -> J {
    json!({"t":"int","i":n,"s":""})
}
fn nil() -> J {
    json!({"t":"nil","i":0,"s":""})
}
fn strv(s: &str) -> J {
    json!({"t":"str","i":0,"s":s})
}
fn real(s: &str) -> J {
    json!({"t":"real","i":0,"s":s})
}

/// Random histories -> ndjson trace
pub fn drive(args: &[String]) {
    let seed = arg_num(args, "--seed", 1);
    let cases = arg_num(args, "--cases", 30) as usize;
    let len = arg_num(args, "--len", 300) as usize;
    let ntabs = 2usize; // the trace specification is instantiated with two tables
    let usetabs = arg_num(args, "--ntabs", 2) as usize;
    let out = arg_val(args, "--out").expect("--out");
    let start = arg_num(args, "--start-case", 0) as usize;
    let append = arg_num(args, "--append", 0) == 1;
    let mut w = TraceWriter::open(out, append, 15_000);
    let mut keys: Vec<J> = (0..13).map(int).collect();
    keys.extend([int(-1), strv("a"), strv("ab"), strv("key"), real("0.5"), real("2.5"), nil()]);
    let vals: Vec<J> = vec![int(7), int(8), strv("a"), nil(), int(0), real("0.5")];
    for c in start..cases {
        let mut rng = Rng::new(seed.wrapping_mul(1_000_003).wrapping_add(c as u64));
        let reset = json!({"op":"reset","t":1,"k":nil(),"v":nil(),"n":0});
        w.line(json!({"case": c, "op": reset, "ret": {"ok":true,"vs":[]}, "proj": []}));
        // every fourth case runs under a memory limit that refuses the growth of the tables after a few entries; keys and
        // values are then restricted to those that need no allocation themselves
        let limited = c % 4 == 3;
        let mut sut: Box<dyn Sut> = Box::new(Tabs::with_limit(ntabs, if limited { Some(1400 + 100 * rng.below(8)) } else { None }));
        let mut lens = vec![0usize; ntabs];
        // a case prefers a small key set so that overwrites / removes of present keys are frequent
        let nk = if limited { keys.len() } else { 3 + rng.below(keys.len() - 2) };
        for _ in 0..len {
            let t = 1 + rng.below(usetabs);
            let mut k = keys[rng.below(nk)].clone();
            let mut v = rng.pick(&vals).clone();
            if limited {
                if k["t"] == "str" {
                    k = int(20 + rng.below(30) as i64);
                }
                if v["t"] == "str" {
                    v = int(rng.below(9) as i64);
                }
            }
            let op = match rng.below(16) {
                0..=4 => json!({"op":"set","t":t,"k":k,"v":v,"n":0}),
                5 => json!({"op":"get","t":t,"k":k,"v":nil(),"n":0}),
                6 => json!({"op":"has","t":t,"k":k,"v":nil(),"n":0}),
                7 => json!({"op":"len","t":t,"k":nil(),"v":nil(),"n":0}),
                8..=10 => json!({"op":"append","t":t,"k":nil(),"v":v,"n":0}),
                11 | 12 => json!({"op":"pop","t":t,"k":nil(),"v":nil(),"n":0}),
                13 | 14 => json!({"op":"remove","t":t,"k":k,"v":nil(),"n":0}),
                _ => {
                    if lens[t - 1] == 0 {
                        json!({"op":"len","t":t,"k":nil(),"v":nil(),"n":0})
                    } else {
                        json!({"op":"nth","t":t,"k":nil(),"v":nil(),"n":rng.below(lens[t - 1])})
                    }
                }
            };
            w.begin(c, &op);
            let (got, panicked) = exec_recorded(&mut sut, &op);
            if let Some(a) = got["proj"].as_array() {
                for (i, tb) in a.iter().enumerate() {
                    lens[i] = tb.as_array().map(|x| x.len()).unwrap_or(0);
                }
            }
            w.end(json!({"case": c, "op": op, "ret": got["ret"], "proj": got["proj"]}));
            if panicked {
                std::mem::forget(sut);
                sut = Box::new(Tabs::new(ntabs));
                break;
            }
        }
    }
    w.finish();
}
