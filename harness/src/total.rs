//! C04: hostile inputs (every family of spec/VmTotal.tla) compiled and run under crash isolation
use crate::cards::*;
use crate::gen::*;
use crate::util::*;
use cao_lang::compiler::Module;
use cao_lang::prelude::*;
use cao_lang::vm::runtime::RuntimeData;
use serde_json::{json, Value as J};

struct Case {
    fam: &'static str,
    module: Module,
    natives: Vec<Native>,
    budget: u64,
    limit: usize,
    stack: usize,
    calls: usize,
    run: bool,
}

fn prog(main: Vec<C>, fns: Vec<F>) -> P {
    let mut all = vec![F { name: "main".into(), params: vec![], body: main }];
    all.extend(fns);
    P { fns: all, natives: vec![Native { name: "log1".into(), arity: 1, beh: "log", types: vec!["value"] }], imports: vec![] }
}
fn func(name: &str, params: &[&str], body: Vec<C>) -> F {
    F { name: name.into(), params: params.iter().map(|x| x.to_string()).collect(), body }
}

/// replace one random value operand by a literal of another kind
fn mutate_wrong_type(p: &mut P, rng: &mut Rng) {
    fn all_paths(c: &C, path: &mut Vec<usize>, out: &mut Vec<Vec<usize>>) {
        for (i, ch) in c.c.iter().enumerate() {
            path.push(i);
            let value_parent = !matches!(c.k, "CompositeCard" | "Closure" | "IfTrue" | "IfFalse" | "IfElse" | "While" | "Repeat" | "ForEach")
                || (matches!(c.k, "IfTrue" | "IfFalse" | "IfElse" | "While" | "Repeat" | "ForEach") && i == 0);
            if value_parent {
                out.push(path.clone());
            }
            all_paths(ch, path, out);
            path.pop();
        }
    }
    let fi = rng.below(p.fns.len());
    let mut cands = vec![];
    for (si, st) in p.fns[fi].body.iter().enumerate() {
        let mut path = vec![si];
        all_paths(st, &mut path, &mut cands);
    }
    if cands.is_empty() {
        return;
    }
    let path = rng.pick(&cands).clone();
    let lit = match rng.below(7) {
        0 => nil(),
        1 => strlit("wrong"),
        2 => card("CreateTable", vec![]),
        3 => real(1, 1),
        4 => int(i64::MAX),
        5 => named("NativeFunction", "log1", vec![]),
        _ => int(-1),
    };
    let mut c = &mut p.fns[fi].body[path[0]];
    for i in &path[1..] {
        c = &mut c.c[*i];
    }
    *c = lit;
}

fn random_tree(rng: &mut Rng, depth: usize) -> C {
    // any card kind with children of any kind: not well scoped on purpose (compile-only family)
    let kinds: &[(&'static str, usize)] = &[
        ("Add", 2), ("Sub", 2), ("Less", 2), ("Equals", 2), ("And", 2), ("Not", 1), ("Return", 1), ("Len", 1), ("PopTable", 1),
        ("ScalarNil", 0), ("CreateTable", 0), ("Abort", 0), ("SetProperty", 3), ("GetProperty", 2), ("Get", 2), ("AppendTable", 2),
        ("IfTrue", 2), ("IfFalse", 2), ("IfElse", 3), ("While", 2), ("CompositeCard", 3), ("Array", 2), ("Comment", 0),
    ];
    if depth == 0 || rng.chance(1, 5) {
        return match rng.below(8) {
            0 => int(rng.below(5) as i64),
            1 => strlit("s"),
            2 => read(*rng.pick(&["x", "y", "x.a.b", "g"])),
            3 => real(3, 1),
            4 => named("Function", *rng.pick(&["main", "f1", "nope"]), vec![]),
            5 => named("NativeFunction", "log1", vec![]),
            6 => nil(),
            _ => card("CreateTable", vec![]),
        };
    }
    match rng.below(12) {
        0 => setv(*rng.pick(&["x", "y", "x.a", ""]), random_tree(rng, depth - 1)),
        1 => setg(*rng.pick(&["g", "h", ""]), random_tree(rng, depth - 1)),
        2 => repeat(*rng.pick(&["i", ""]), random_tree(rng, depth - 1), random_tree(rng, depth - 1)),
        3 => foreach("i", "k", *rng.pick(&["v", ""]), random_tree(rng, depth - 1), random_tree(rng, depth - 1)),
        4 => call(*rng.pick(&["f1", "main", "nope"]), (0..rng.below(3)).map(|_| random_tree(rng, depth - 1)).collect()),
        5 => native(*rng.pick(&["log1", "nope"]), (0..rng.below(3)).map(|_| random_tree(rng, depth - 1)).collect()),
        6 => dyncall(random_tree(rng, depth - 1), (0..rng.below(3)).map(|_| random_tree(rng, depth - 1)).collect()),
        7 => closure(&["a"], (0..1 + rng.below(2)).map(|_| random_tree(rng, depth - 1)).collect()),
        _ => {
            let (k, n) = *rng.pick(kinds);
            card(k, (0..n).map(|_| random_tree(rng, depth - 1)).collect())
        }
    }
}

fn nested(depth: usize) -> C {
    let mut c = int(1);
    for i in 0..depth {
        c = if i % 3 == 0 { card("Add", vec![c, int(1)]) } else if i % 3 == 1 { card("Not", vec![c]) } else { block(vec![card("Comment", vec![]), c]) };
    }
    c
}

fn cases(rng: &mut Rng, id: usize) -> Vec<Case> {
    let dflt = |fam: &'static str, p: P, run: bool| Case { fam, module: p.to_module(), natives: p.natives.clone(), budget: 200_000, limit: 400 * 1024, stack: 256, calls: 256, run };
    let mut v = vec![];
    // generated program, and the same with one operand of the wrong type
    let pname = *rng.pick(&["basic", "calls", "tables", "closures", "std"]);
    let base = Gen::new(rng, Profile::named(pname)).program();
    let mut m = base.clone();
    mutate_wrong_type(&mut m, rng);
    v.push(dflt("wrong-type", m, true));
    // arbitrary card trees: the front-end must answer, whatever it is
    let tree = prog((0..1 + rng.below(3)).map(|_| random_tree(rng, 4)).collect(), vec![func("f1", &["a"], vec![random_tree(rng, 3)])]);
    v.push(dflt("compile-only", tree, false));
    match id % 15 {
        0 => {
            let depth = 300 + rng.below(400);
            let mut c = dflt("call-depth", prog(vec![call("r", vec![int(depth as i64)])],
                vec![func("r", &["n"], vec![card("IfTrue", vec![card("Less", vec![int(0), read("n")]), card("Return", vec![call("r", vec![card("Sub", vec![read("n"), int(1)])])])]), card("Return", vec![int(0)])])]), true);
            c.calls = [16, 64, 256][rng.below(3)];
            v.push(c);
        }
        1 => {
            // more locals than the value stack has slots
            let stack = [4, 16, 64, 200][rng.below(4)];
            let body: Vec<C> = (0..stack + 5).map(|i| setv(&format!("v{i}"), int(i as i64))).collect();
            let mut c = dflt("value-stack", prog(body, vec![]), true);
            c.stack = stack;
            v.push(c);
        }
        2 => {
            let mut c = dflt("memory", prog(vec![setg("keep", card("CreateTable", vec![])),
                repeat("i", int(100_000), block(vec![card("AppendTable", vec![strlit("a string that is kept alive by the global table"), read("keep")])]))], vec![]), true);
            c.limit = [2_000, 10_000, 60_000][rng.below(3)];
            c.budget = 50_000_000;
            v.push(c);
        }
        3 => {
            let mut c = dflt("budget", prog(vec![setv("w", int(1)), card("While", vec![read("w"), block(vec![setg("g", read("w"))])])], vec![]), true);
            c.budget = [0, 1, 2, 7, 1000][rng.below(5)];
            v.push(c);
        }
        4 => v.push(dflt("non-function-call", prog(vec![setv("x", rng.pick(&[int(3), strlit("f"), card("CreateTable", vec![])]).clone()), dyncall(read("x"), vec![])], vec![]), true)),
        5 => {
            let big = [i64::MAX, i64::MIN, i64::MAX - 1][rng.below(3)];
            let op = *rng.pick(&["Add", "Sub", "Mul"]);
            v.push(dflt("int-overflow", prog(vec![setg("r", card(op, vec![int(big), int(*rng.pick(&[2, -2, i64::MAX]))])),
                                                  setg("n", card("Sub", vec![int(0), int(i64::MIN)])),
                                                  repeat("i", int(2), block(vec![setg("m", card("Mul", vec![int(i64::MAX), read("i")]))]))], vec![]), true));
        }
        6 => {
            let n = 250 + rng.below(60);
            let body: Vec<C> = (0..n).map(|i| setv(&format!("v{i}"), int(i as i64))).collect();
            let fam = if n > 255 { "too-many-locals" } else { "any" };
            v.push(dflt(fam, prog(body, vec![]), fam == "any"));
            // many parameters / arguments
            let np = 250 + rng.below(20);
            let params: Vec<String> = (0..np).map(|i| format!("p{i}")).collect();
            let pr: Vec<&str> = params.iter().map(|s| s.as_str()).collect();
            // closures nested two deep whose innermost body names more variables of the enclosing bodies than fit in one
            // closure's capture list: the front-end must answer with a program or an error
            {
                let na = 120 + rng.below(150);
                let nb = 120 + rng.below(150);
                let mut outer: Vec<C> = (0..na).map(|i| setv(&format!("a{i}"), int(i as i64))).collect();
                let mut mid: Vec<C> = (0..nb).map(|i| setv(&format!("b{i}"), int(i as i64))).collect();
                let inner: Vec<C> = (0..na).map(|i| setg("s", read(&format!("a{i}")))).chain((0..nb).map(|i| setg("s", read(&format!("b{i}"))))).collect();
                mid.push(setg("k", closure(&[], inner)));
                outer.push(setg("m", closure(&[], mid)));
                v.push(dflt("compile-only", prog(outer, vec![]), false));
            }
            let fam2 = if np > 255 { "too-many-locals" } else { "any" };
            v.push(dflt(fam2, prog(vec![call("many", (0..np).map(|i| int(i as i64)).collect())], vec![func("many", &pr, vec![card("Return", vec![read("p0")])])]), fam2 == "any"));
        }
        7 => v.push(dflt("missing-native", prog(vec![native("no_such_native", vec![int(1)])], vec![]), true)),
        8 => {
            // nesting as deep as the JSON loader admits (the module goes through JSON text)
            let depth = 10 + rng.below(70);
            let p = prog(vec![setg("r", nested(depth))], vec![]);
            let text = serde_json::to_string(&p.to_module()).unwrap();
            if let Ok(m) = serde_json::from_str::<Module>(&text) {
                let mut c = dflt("deep-nesting", p, true);
                c.module = m;
                v.push(c);
            }
        }
        9 => {
            // a table that contains itself: compare, hash (use as key), truthiness, length, log
            let op = rng.below(5);
            let use_it = match op {
                0 => setg("r", card("Equals", vec![read("t"), read("t")])),
                1 => card("SetProperty", vec![int(1), read("u"), read("t")]),
                2 => setg("r", card("Less", vec![read("t"), read("t")])),
                3 => setg("r", card("Not", vec![read("t")])),
                _ => setg("r", card("Equals", vec![read("t"), read("u")])),
            };
            v.push(dflt("cyclic-table", prog(vec![setv("t", card("CreateTable", vec![])), setv("u", card("CreateTable", vec![])), setv("t.me", read("t")), setv("u.me", read("u")), use_it], vec![]), true));
        }
        11 => {
            // strings around the sizes the code treats specially (one-byte lengths, the 256-byte read window, 64 KiB),
            // as literal, as property name, as native-function name and as variable name
            let lens = [0usize, 1, 2, 127, 128, 250, 251, 252, 253, 254, 255, 256, 257, 258, 259, 260, 511, 512, 1000, 4096, 65535, 65536, 70000];
            let l = *rng.pick(&lens);
            let s: String = std::iter::repeat('x').take(l).collect();
            let body = match rng.below(5) {
                0 => vec![setg("r", strlit(&s)), setg("n", card("Len", vec![read("r")]))],
                1 => vec![setv("t", card("CreateTable", vec![])), setv(&format!("t.{s}"), int(1)), setg("r", read(&format!("t.{s}")))],
                2 => vec![setg("r", named("NativeFunction", &s, vec![])), setg("q", native(&s, vec![]))],
                3 => vec![setv(&s, int(1)), setg(&s, read(&s))],
                _ => vec![setg("r", card("Equals", vec![strlit(&s), strlit(&s)])), setv("t", card("CreateTable", vec![])),
                          card("SetProperty", vec![int(1), read("t"), strlit(&s)]), setg("q", card("GetProperty", vec![read("t"), strlit(&s)]))],
            };
            v.push(dflt("long-strings", prog(body, vec![]), true));
        }
        12 => {
            // value slots filled by cards that produce no value (a Comment, an empty block, an assignment): the instruction finds
            // fewer operands than it takes - with nothing, one or two values below it on the stack
            let nothing = |rng: &mut Rng| -> C {
                match rng.below(4) {
                    0 => card("Comment", vec![]),
                    1 => block(vec![]),
                    2 => setv("z", int(1)),
                    _ => block(vec![card("Comment", vec![])]),
                }
            };
            let (op, arity) = *rng.pick(&[("SetProperty", 3), ("AppendTable", 2), ("Get", 2), ("GetProperty", 2), ("PopTable", 1), ("Len", 1),
                                          ("Add", 2), ("Less", 2), ("Not", 1), ("And", 2)]);
            let mut operands: Vec<C> = vec![];
            for _ in 0..arity {
                operands.push(match rng.below(4) {
                    0 => card("CreateTable", vec![]),
                    1 => int(1),
                    _ => nothing(rng),
                });
            }
            let below = rng.below(3);
            let mut body: Vec<C> = (0..below).map(|i| setv(&format!("l{i}"), int(i as i64))).collect();
            body.push(card(op, operands));
            body.push(setg("after", int(1)));
            v.push(dflt("missing-operands", prog(body, vec![]), true));
        }
        13 => {
            // a recursive walk with a for-each in every frame: sooner or later a loop begins when only a few value-stack slots
            // are left (the number of padding locals shifts where exactly)
            let pad = rng.below(10);
            let mut body: Vec<C> = (0..pad).map(|i| setv(&format!("pad{i}"), int(i as i64))).collect();
            body.push(card("IfTrue", vec![card("Less", vec![int(0), read("n")]),
                                          foreach("i", "k", "v", read("items"), block(vec![setg("d", call("walk", vec![card("Sub", vec![read("n"), int(1)])]))]))]));
            body.push(card("Return", vec![read("n")]));
            // every alignment of the frames against the end of the stack: locals of main shift all of them
            for mpad in 0..(pad + 9) {
                let mut main: Vec<C> = (0..mpad).map(|i| setv(&format!("m{i}"), int(i as i64))).collect();
                main.push(setg("items", card("Array", vec![int(1)])));
                main.push(setg("r", call("walk", vec![int(80)])));
                v.push(dflt("foreach-at-stack-limit", prog(main, vec![func("walk", &["n"], body.clone())]), true));
            }
        }
        10 => {
            let n = 1 + rng.below(64);
            let body: Vec<C> = (0..n).map(|i| setg(&format!("global_{i}"), int(i as i64))).collect();
            v.push(dflt("many-globals", prog(body, vec![]), true));
        }
        _ => {
            let names = ["", " ", "a.b", "super", "std", "über", "x\u{0}y", "very_long_name_very_long_name_very_long_name_very_long_name", "1", "_"];
            let nm = *rng.pick(&names);
            let mut p = prog(vec![setv(nm, int(1)), setg(nm, read(nm))], vec![func(nm, &[nm], vec![card("Return", vec![read(nm)])])]);
            if rng.chance(1, 2) {
                p.fns[0].body.push(call(nm, vec![int(1)]));
            }
            v.push(dflt("names", p, true));
        }
    }
    v
}

trait CloneCard {
    fn clone_card(&self) -> C;
}
impl CloneCard for C {
    fn clone_card(&self) -> C {
        self.clone()
    }
}

fn kind_of(dbg: String) -> String {
    dbg.split(|c: char| !c.is_alphanumeric()).next().unwrap_or("").to_string()
}

/// total-drive --seed S --n N --out FILE
pub fn drive(args: &[String]) {
    let seed = arg_num(args, "--seed", 1);
    let n = arg_num(args, "--n", 60) as usize;
    let out = arg_val(args, "--out").expect("--out");
    let start = arg_num(args, "--start-case", 0) as usize;
    let append = arg_num(args, "--append", 0) == 1;
    let mut w = TraceWriter::open(out, append, 30_000);
    for id in start..n {
        let mut rng = Rng::new(seed.wrapping_mul(7_919_117).wrapping_add(id as u64));
        for (j, c) in cases(&mut rng, id).into_iter().enumerate() {
            let info = json!({"case": id, "sub": j, "fam": c.fam, "module": serde_json::to_value(&c.module).unwrap_or(J::Null)});
            w.begin(id, &info);
            w.line(json!({"e": "Reset", "fam": c.fam, "case": id, "sub": j}));
            let compiled = match guarded(|| cao_lang::compiler::compile(c.module.clone(), None)) {
                Err(msg) => {
                    w.end(json!({"e": "Panic", "where": "compile", "msg": msg, "case": id, "fam": c.fam}));
                    continue;
                }
                Ok(Err(e)) => {
                    w.end(json!({"e": "Compile", "res": kind_of(format!("{:?}", e.payload))}));
                    continue;
                }
                Ok(Ok(p)) => p,
            };
            w.end(json!({"e": "Compile", "res": "ok"}));
            if !c.run {
                continue;
            }
            w.begin(id, &info);
            let r = guarded(|| {
                let p = P { fns: vec![], natives: c.natives.clone(), imports: vec![] };
                let mut vm = make_vm(&p, &RunCfg { max_instr: c.budget });
                vm.runtime_data = RuntimeData::new(c.limit, c.stack, c.calls).unwrap();
                let res = vm.run(&compiled);
                let out = match &res {
                    Ok(()) => "ok".to_string(),
                    Err(e) => payload_kind(&e.payload),
                };
                // dropping / clearing the VM is part of the case
                vm.clear();
                out
            });
            match r {
                Ok(res) => w.end(json!({"e": "Run", "res": res})),
                Err(msg) => w.end(json!({"e": "Panic", "where": "run", "msg": msg, "case": id, "fam": c.fam})),
            }
        }
    }
    w.finish();
}
