//! C11: serialization round trips recorded for spec/Transport.tla
use crate::cards::*;
use crate::gen::*;
use crate::util::*;
use crate::values::build_term;
use cao_lang::prelude::*;
use serde_json::{json, Value as J};

/// complete projection of a compiled program (order-insensitive tables sorted)
pub fn project_full(c: &CaoCompiledProgram) -> J {
    let mut labels: Vec<(u32, u32)> = c.labels.0.iter().map(|(h, l)| (h.value(), l.pos)).collect();
    labels.sort();
    let mut ids: Vec<(u32, J)> = c.variables.ids.iter().map(|(h, v)| (h.value(), serde_json::to_value(v).unwrap())).collect();
    ids.sort_by_key(|x| x.0);
    let mut names: Vec<(u32, String)> = c.variables.names.iter().map(|(h, v)| (h.value(), v.clone())).collect();
    names.sort();
    let mut trace: Vec<(u32, J)> = c.trace.iter().map(|(k, t)| (*k, serde_json::to_value(t).unwrap())).collect();
    trace.sort_by_key(|x| x.0);
    // 32-bit handles travel as strings (TLC integers are 32-bit signed)
    json!({"bytecode": c.bytecode, "data": c.data, "version": c.cao_lang_version,
           "labels": labels.iter().map(|(h, p)| json!([h.to_string(), p])).collect::<Vec<_>>(),
           "ids": ids.iter().map(|(h, v)| json!([h.to_string(), v])).collect::<Vec<_>>(),
           "names": names.iter().map(|(h, v)| json!([h.to_string(), v])).collect::<Vec<_>>(),
           "trace": trace.iter().map(|(k, t)| json!([k, t])).collect::<Vec<_>>()})
}

fn run_digest(p: &P, c: &CaoCompiledProgram) -> J {
    match guarded(|| observe_compiled(p, c, &RunCfg { max_instr: 200_000 })) {
        Ok(o) => o,
        Err(msg) => json!({"panic": msg}),
    }
}

fn rt_compiled(c: &CaoCompiledProgram, fmt: &str) -> Result<CaoCompiledProgram, String> {
    match fmt {
        "json" => {
            let s = serde_json::to_string(c).map_err(|e| e.to_string())?;
            serde_json::from_str(&s).map_err(|e| e.to_string())
        }
        "cbor" => {
            let mut buf = vec![];
            ciborium::ser::into_writer(c, &mut buf).map_err(|e| e.to_string())?;
            ciborium::de::from_reader(buf.as_slice()).map_err(|e| e.to_string())
        }
        "bincode" => {
            let buf = bincode::serde::encode_to_vec(c, bincode::config::standard()).map_err(|e| e.to_string())?;
            bincode::serde::decode_from_slice(&buf, bincode::config::standard()).map(|x| x.0).map_err(|e| e.to_string())
        }
        other => Err(format!("unknown format {other}")),
    }
}

fn rt_owned(v: &OwnedValue, fmt: &str) -> Result<OwnedValue, String> {
    match fmt {
        "json" => {
            let s = serde_json::to_string(v).map_err(|e| e.to_string())?;
            serde_json::from_str(&s).map_err(|e| e.to_string())
        }
        "cbor" => {
            let mut buf = vec![];
            ciborium::ser::into_writer(v, &mut buf).map_err(|e| e.to_string())?;
            ciborium::de::from_reader(buf.as_slice()).map_err(|e| e.to_string())
        }
        "bincode" => {
            let buf = bincode::serde::encode_to_vec(v, bincode::config::standard()).map_err(|e| e.to_string())?;
            bincode::serde::decode_from_slice(&buf, bincode::config::standard()).map(|x| x.0).map_err(|e| e.to_string())
        }
        other => Err(format!("unknown format {other}")),
    }
}

fn rt_module(m: &cao_lang::compiler::Module, fmt: &str) -> Result<cao_lang::compiler::Module, String> {
    match fmt {
        "json" => {
            let s = serde_json::to_string(m).map_err(|e| e.to_string())?;
            serde_json::from_str(&s).map_err(|e| e.to_string())
        }
        "yaml" => {
            let s = serde_yaml::to_string(m).map_err(|e| e.to_string())?;
            serde_yaml::from_str(&s).map_err(|e| e.to_string())
        }
        other => Err(format!("unknown format {other}")),
    }
}

fn rec(id: String, kind: &str, fmt: &str, before: J, after: J, rb: J, ra: J, error: &str) -> J {
    json!({"id": id, "kind": kind, "fmt": fmt, "before": before, "after": after, "run_before": rb, "run_after": ra, "error": error})
}

/// transport-drive --profile P --seed S --n N --out FILE
pub fn drive(args: &[String]) {
    let seed = arg_num(args, "--seed", 1);
    let n = arg_num(args, "--n", 40) as usize;
    let profile = arg_val(args, "--profile").unwrap_or("default").to_string();
    let out = arg_val(args, "--out").expect("--out");
    let start = arg_num(args, "--start-case", 0) as usize;
    let append = arg_num(args, "--append", 0) == 1;
    let mut w = TraceWriter::open(out, append, 20_000);
    for id in start..n {
        let mut rng = Rng::new(seed.wrapping_mul(7_919_117).wrapping_add(id as u64));
        let p = Gen::new(&mut rng, Profile::named(&profile)).program();
        let module = p.to_module();
        let compiled = match cao_lang::compiler::compile(module.clone(), None) {
            Ok(c) => c,
            Err(_) => continue,
        };
        let before = project_full(&compiled);
        let rb = run_digest(&p, &compiled);
        for fmt in ["json", "yaml"] {
            let idn = format!("{profile}/{id}/module/{fmt}");
            w.begin(id, &json!({"id": idn}));
            let r = guarded(|| rt_module(&module, fmt).and_then(|m2| cao_lang::compiler::compile(m2, None).map_err(|e| format!("{e}"))));
            match r {
                Ok(Ok(c2)) => w.end(rec(idn, "module", fmt, before.clone(), project_full(&c2), json!(0), json!(0), "")),
                Ok(Err(e)) => w.end(rec(idn, "module", fmt, before.clone(), json!({"error": true}), json!(0), json!(0), &e)),
                Err(msg) => w.end(rec(idn, "module", fmt, before.clone(), json!({"panic": true}), json!(0), json!(0), &msg)),
            }
        }
        for fmt in ["json", "cbor", "bincode"] {
            let idn = format!("{profile}/{id}/compiled/{fmt}");
            w.begin(id, &json!({"id": idn}));
            match guarded(|| rt_compiled(&compiled, fmt)) {
                Ok(Ok(c2)) => {
                    let ra = run_digest(&p, &c2);
                    w.end(rec(idn, "compiled", fmt, before.clone(), project_full(&c2), rb.clone(), ra, ""))
                }
                Ok(Err(e)) => w.end(rec(idn, "compiled", fmt, before.clone(), json!({"error": true}), rb.clone(), json!(0), &e)),
                Err(msg) => w.end(rec(idn, "compiled", fmt, before.clone(), json!({"panic": true}), rb.clone(), json!(0), &msg)),
            }
        }
    }
    w.finish();
}

/// transport-values <universe.json> --out FILE : owned-value round trips into a second VM
pub fn values(args: &[String]) {
    let uni: J = serde_json::from_str(&std::fs::read_to_string(&args[0]).unwrap()).unwrap();
    let out = arg_val(args, "--out").expect("--out");
    let mut w = TraceWriter::open(out, false, 20_000);
    for (i, t) in uni.as_array().unwrap().iter().enumerate() {
        for fmt in ["json", "cbor", "bincode"] {
            let idn = format!("value/{i}/{fmt}");
            // JSON has no representation for NaN / infinities (serde_json writes null): a limitation of
            // the format, not of the crate; those terms are only moved through CBOR and bincode
            let txt = t.to_string();
            if fmt == "json" && (txt.contains("\"nan\"") || txt.contains("inf\"")) {
                continue;
            }
            w.begin(i, &json!({"id": idn}));
            let r = guarded(|| {
                let mut vm1: Vm<()> = Vm::new(()).unwrap();
                let v = build_term(&mut vm1, t);
                vm1.stack_push(v).unwrap();
                let before = deep(v, 0);
                let owned = OwnedValue::try_from(v).map_err(|_| "not convertible to an owned value".to_string())?;
                let owned2 = rt_owned(&owned, fmt)?;
                let mut vm2: Vm<()> = Vm::new(()).unwrap();
                let v2 = vm2.insert_value(&owned2).map_err(|e| format!("{e:?}"))?;
                Ok::<(J, J), String>((before, deep(v2, 0)))
            });
            match r {
                Ok(Ok((b, a))) => w.end(rec(idn, "value", fmt, b, a, json!(0), json!(0), "")),
                Ok(Err(e)) if e.starts_with("not convertible") => w.end(rec(idn, "value", fmt, json!("n/a"), json!("n/a"), json!(0), json!(0), &e)),
                Ok(Err(e)) => w.end(rec(idn, "value", fmt, json!("before"), json!({"error": true}), json!(0), json!(0), &e)),
                Err(msg) => w.end(rec(idn, "value", fmt, json!("before"), json!({"panic": true}), json!(0), json!(0), &msg)),
            }
        }
    }
    // a value in which one table object occurs several times (no cycle): it is a legal value and travels like any other
    for (i, t) in uni.as_array().unwrap().iter().enumerate() {
        let txt = t.to_string();
        if t["t"] != "tab" || txt.contains("\"fn\"") || txt.contains("\"nan\"") || txt.contains("inf\"") {
            continue;
        }
        for fmt in ["json", "cbor", "bincode"] {
            let idn = format!("shared/{i}/{fmt}");
            w.begin(i, &json!({"id": idn}));
            let r = guarded(|| {
                let mut vm1: Vm<()> = Vm::new(()).unwrap();
                let inner = build_term(&mut vm1, t);
                vm1.stack_push(inner).unwrap();
                let mut root = vm1.init_table().unwrap();
                let mut mid = vm1.init_table().unwrap();
                mid.as_table_mut().unwrap().insert(Value::Integer(0), inner).unwrap();
                let midv = Value::Object(mid.into_inner());
                vm1.stack_push(midv).unwrap();
                for (k, v) in [(1i64, inner), (2, inner), (3, midv)] {
                    root.as_table_mut().unwrap().insert(Value::Integer(k), v).unwrap();
                }
                let v = Value::Object(root.into_inner());
                vm1.stack_push(v).unwrap();
                let before = deep(v, 0);
                let owned = OwnedValue::try_from(v).map_err(|_| "a table that occurs twice was not convertible to an owned value".to_string())?;
                let owned2 = rt_owned(&owned, fmt)?;
                let mut vm2: Vm<()> = Vm::new(()).unwrap();
                let v2 = vm2.insert_value(&owned2).map_err(|e| format!("{e:?}"))?;
                Ok::<(J, J), String>((before, deep(v2, 0)))
            });
            match r {
                Ok(Ok((b, a))) => w.end(rec(idn, "value", fmt, b, a, json!(0), json!(0), "")),
                Ok(Err(e)) => w.end(rec(idn, "value", fmt, json!("before"), json!({"error": true}), json!(0), json!(0), &e)),
                Err(msg) => w.end(rec(idn, "value", fmt, json!("before"), json!({"panic": true}), json!(0), json!(0), &msg)),
            }
        }
    }
    w.finish();
}
