use serde_json::{json, Value as J};
use std::io::{BufRead, Write};
use std::panic::{catch_unwind, AssertUnwindSafe};

/// Tiny deterministic RNG (xorshift64*), so traces depend only on VERIF_SEED.
pub struct Rng(pub u64);
impl Rng {
    pub fn new(seed: u64) -> Self {
        Rng((seed.wrapping_mul(0x9E3779B97F4A7C15) ^ 0xD1B54A32D192ED03) | 1)
    }
    pub fn next(&mut self) -> u64 {
        let mut x = self.0;
        x ^= x >> 12;
        x ^= x << 25;
        x ^= x >> 27;
        self.0 = x;
        x.wrapping_mul(0x2545F4914F6CDD1D)
    }
    pub fn below(&mut self, n: usize) -> usize {
        if n == 0 {
            0
        } else {
            (self.next() >> 11) as usize % n
        }
    }
    pub fn chance(&mut self, num: usize, den: usize) -> bool {
        self.below(den) < num
    }
    pub fn pick<'a, T>(&mut self, xs: &'a [T]) -> &'a T {
        &xs[self.below(xs.len())]
    }
}

pub fn arg_val<'a>(args: &'a [String], name: &str) -> Option<&'a str> {
    args.iter()
        .position(|a| a == name)
        .and_then(|i| args.get(i + 1))
        .map(|s| s.as_str())
}

pub fn arg_num(args: &[String], name: &str, default: u64) -> u64 {
    arg_val(args, name)
        .map(|s| s.parse().expect("numeric argument"))
        .unwrap_or(default)
}

pub fn panic_msg(e: Box<dyn std::any::Any + Send>) -> String {
    if let Some(s) = e.downcast_ref::<&str>() {
        s.to_string()
    } else if let Some(s) = e.downcast_ref::<String>() {
        s.clone()
    } else {
        "<non-string panic>".to_string()
    }
}

/// Case runner protocol (see lib/vlib.py run_cases): `BEGIN i` / `RESULT i <json>` per case, panics
/// become data, a crash or hang is attributed by the parent to the last BEGIN.
pub fn run_cases(args: &[String], f: fn(&J) -> J) {
    let file = args.first().expect("cases file");
    let skip = arg_num(args, "--skip", 0) as usize;
    std::panic::set_hook(Box::new(|_| {}));
    let rd = std::io::BufReader::new(std::fs::File::open(file).expect("open cases"));
    let out = std::io::stdout();
    for (i, line) in rd.lines().enumerate() {
        let line = line.expect("read");
        if i < skip {
            continue;
        }
        {
            let mut o = out.lock();
            writeln!(o, "BEGIN {i}").unwrap();
            o.flush().unwrap();
        }
        let res = if line.trim().is_empty() {
            json!({"status":"ok","note":"empty"})
        } else {
            let case: J = serde_json::from_str(&line).expect("case json");
            match catch_unwind(AssertUnwindSafe(|| f(&case))) {
                Ok(r) => r,
                Err(e) => json!({"status":"panic","detail": panic_msg(e)}),
            }
        };
        let mut o = out.lock();
        writeln!(o, "RESULT {i} {res}").unwrap();
        o.flush().unwrap();
    }
}

/// Run a closure, turning a panic into Err(message).
pub fn guarded<T>(f: impl FnOnce() -> T) -> Result<T, String> {
    catch_unwind(AssertUnwindSafe(f)).map_err(panic_msg)
}

/// Trace writer for the impl -> spec drivers.  Every operation is announced in `<out>.pending`
/// before it runs and appended to the trace after it returned; a watchdog thread ends the process
/// (exit code 3) when one operation does not return in time.  The parent (lib/vlib.py drive_trace)
/// turns a dead or timed-out driver into an `abort` / `hang` record for the pending operation and
/// restarts the driver at the next case.
pub struct TraceWriter {
    w: std::io::BufWriter<std::fs::File>,
    pending: String,
    armed: std::sync::Arc<std::sync::Mutex<Option<std::time::Instant>>>,
}

impl TraceWriter {
    pub fn open(path: &str, append: bool, op_timeout_ms: u64) -> Self {
        let f = std::fs::OpenOptions::new()
            .create(true)
            .write(true)
            .append(append)
            .truncate(!append)
            .open(path)
            .expect("open trace");
        let armed: std::sync::Arc<std::sync::Mutex<Option<std::time::Instant>>> = Default::default();
        let a2 = armed.clone();
        std::thread::spawn(move || loop {
            std::thread::sleep(std::time::Duration::from_millis(50));
            if let Some(t) = *a2.lock().unwrap() {
                if t.elapsed().as_millis() as u64 > op_timeout_ms {
                    std::process::exit(3);
                }
            }
        });
        TraceWriter {
            w: std::io::BufWriter::new(f),
            pending: format!("{path}.pending"),
            armed,
        }
    }
    pub fn begin(&mut self, case: usize, op: &J) {
        std::fs::write(&self.pending, json!({"case": case, "op": op}).to_string()).unwrap();
        *self.armed.lock().unwrap() = Some(std::time::Instant::now());
    }
    pub fn end(&mut self, rec: J) {
        *self.armed.lock().unwrap() = None;
        writeln!(self.w, "{rec}").unwrap();
        self.w.flush().unwrap();
    }
    pub fn line(&mut self, rec: J) {
        writeln!(self.w, "{rec}").unwrap();
        self.w.flush().unwrap();
    }
    pub fn finish(&mut self) {
        self.w.flush().unwrap();
        let _ = std::fs::remove_file(&self.pending);
    }
}
