//! C19: equality / hash / order / truthiness tables of real values for spec/ValueLawsObs.tla
use cao_lang::prelude::*;
use serde_json::{json, Value as J};
use std::hash::{Hash, Hasher};

pub fn build_term<A>(vm: &mut Vm<A>, t: &J) -> Value {
    match t["t"].as_str().unwrap() {
        "nil" => Value::Nil,
        "int" => match t["s"].as_str().unwrap_or("") {
            "max" => Value::Integer(i64::MAX),
            "min" => Value::Integer(i64::MIN),
            _ => Value::Integer(t["i"].as_i64().unwrap()),
        },
        "real" => Value::Real(match t["s"].as_str().unwrap() {
            "+0" => 0.0,
            "-0" => -0.0,
            "nan" => f64::NAN,
            "inf" => f64::INFINITY,
            "-inf" => f64::NEG_INFINITY,
            other => other.parse::<f64>().expect("real token"),
        }),
        "str" => Value::Object(vm.init_string(t["s"].as_str().unwrap()).unwrap().into_inner()),
        "tab" => {
            let mut g = vm.init_table().unwrap();
            for e in t["e"].as_array().unwrap() {
                let k = build_term(vm, &e[0]);
                let v = build_term(vm, &e[1]);
                g.as_table_mut().unwrap().insert(k, v).unwrap();
            }
            // history: further entries inserted and removed again (the storage of the table grew meanwhile)
            let extra = t["i"].as_i64().unwrap_or(0);
            for x in 0..extra {
                g.as_table_mut().unwrap().insert(Value::Integer(1000 + x), Value::Integer(x)).unwrap();
            }
            for _ in 0..extra {
                g.as_table_mut().unwrap().pop().unwrap();
            }
            Value::Object(g.into_inner())
        }
        "fn" => {
            let name = t["s"].as_str().unwrap();
            Value::Object(vm.init_function(Handle::from_bytes(name.as_bytes()), 0).unwrap().into_inner())
        }
        other => panic!("unknown term tag {other}"),
    }
}

fn hash_of(v: &Value) -> u64 {
    let mut h = std::collections::hash_map::DefaultHasher::new();
    v.hash(&mut h);
    h.finish()
}

/// case = {"row": j (1-based), "universe": [terms]}  ->  records for (j, 1..n)
pub fn table_row(case: &J) -> J {
    let u = case["universe"].as_array().unwrap();
    let j = case["row"].as_u64().unwrap() as usize;
    let mut vm = Vm::new(()).unwrap();
    let a = build_term(&mut vm, &u[j - 1]);
    vm.stack_push(a).unwrap();
    let mut recs = vec![];
    for (k, t) in u.iter().enumerate() {
        let b = build_term(&mut vm, t);
        vm.stack_push(b).unwrap();
        let cmp = match a.partial_cmp(&b) {
            Some(std::cmp::Ordering::Less) => "LT",
            Some(std::cmp::Ordering::Equal) => "EQ",
            Some(std::cmp::Ordering::Greater) => "GT",
            None => "NONE",
        };
        recs.push(json!({"a": j, "b": k + 1, "eq": a == b, "ne": a != b, "heq": hash_of(&a) == hash_of(&b), "cmp": cmp,
                         "lt": a < b, "le": a <= b, "ta": a.as_bool(), "tb": b.as_bool()}));
        vm.stack_pop();
    }
    json!({"status": "ok", "steps": recs.len(), "records": recs})
}
