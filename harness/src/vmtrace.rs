//! Drivers recording hook events of the real VM (cargo feature verif-hooks) for the VM-level
//! trace specifications: VmBudgetTrace (C03), VmAllocTrace (C05), VmLifeTrace (C17).
use crate::cards::*;
use crate::gen::*;
use crate::util::*;
use cao_lang::prelude::*;
use cao_lang::verif::{self, Event};
use serde_json::{json, Value as J};

fn digest(j: &J) -> String {
    use std::hash::{Hash, Hasher};
    let mut h = std::collections::hash_map::DefaultHasher::new();
    j.to_string().hash(&mut h);
    format!("{:016x}", h.finish())
}

/// budget-relevant events, consecutive Instr events of one depth merged into Exec{d, c}
fn budget_events(ev: &[Event], out: &str, dig: &str) -> Vec<J> {
    let mut res: Vec<J> = vec![];
    let mut cur: Option<(u32, u64)> = None;
    let flush = |cur: &mut Option<(u32, u64)>, res: &mut Vec<J>| {
        if let Some((d, c)) = cur.take() {
            res.push(json!({"e": "Exec", "d": d, "c": c}));
        }
    };
    for e in ev {
        match e {
            Event::Instr { depth, .. } => match &mut cur {
                Some((d, c)) if *d == *depth => *c += 1,
                _ => {
                    flush(&mut cur, &mut res);
                    cur = Some((*depth, 1));
                }
            },
            Event::RunStart { max_instr } => {
                flush(&mut cur, &mut res);
                res.push(json!({"e": "RunStart", "n": (*max_instr).min(1_000_000_000)}));
            }
            Event::Reenter { .. } => {
                flush(&mut cur, &mut res);
                res.push(json!({"e": "Reenter"}));
            }
            Event::ReenterEnd { .. } => {
                flush(&mut cur, &mut res);
                res.push(json!({"e": "ReenterEnd"}));
            }
            Event::RunEnd { .. } => {
                flush(&mut cur, &mut res);
                res.push(json!({"e": "RunEnd", "out": out, "digest": dig}));
            }
            _ => {}
        }
    }
    flush(&mut cur, &mut res);
    res
}

thread_local! {
    /// record the contents of the value stack at every instruction (instr-drive --values 1)
    static VALUES: std::cell::Cell<bool> = std::cell::Cell::new(false);
}

thread_local! {
    /// the trace of the error the last run_with_budget ended with (C15: where the error is located)
    static LAST_ERR_TRACE: std::cell::RefCell<J> = std::cell::RefCell::new(J::Null);
}

fn run_with_budget(p: &P, compiled: &CaoCompiledProgram, n: u64) -> (Vec<Event>, String, String) {
    verif::reset(true);
    if VALUES.with(|v| v.get()) {
        verif::with_hooks(|h| h.values = true);
    }
    let mut vm = make_vm(p, &RunCfg { max_instr: n });
    let res = vm.run(compiled);
    let ev = verif::take_events();
    verif::reset(false);
    let obs = observation(&vm, compiled, &res);
    LAST_ERR_TRACE.with(|t| *t.borrow_mut() = match &res { Ok(()) => J::Null, Err(e) => trace_json(&e.trace) });
    let out = match &res {
        Ok(()) => "Ok".to_string(),
        Err(e) if matches!(e.payload, ExecutionErrorPayload::Timeout) => "Timeout".to_string(),
        // a timeout inside a callback surfaces wrapped in the host task's failure
        Err(e) if format!("{:?}", e.payload).contains("Timeout") => "Timeout".to_string(),
        Err(e) => format!("Err:{}", payload_kind(&e.payload)),
    };
    // the observation without the trace (locations differ legitimately between budgets)
    let mut o = obs.clone();
    o["trace"] = json!([]);
    (ev, out, digest(&o))
}

/// budget-drive --profile P --seed S --n N --out FILE
pub fn budget_drive(args: &[String]) {
    let seed = arg_num(args, "--seed", 1);
    let n = arg_num(args, "--n", 50) as usize;
    let profile = arg_val(args, "--profile").unwrap_or("std").to_string();
    let out = arg_val(args, "--out").expect("--out");
    let start = arg_num(args, "--start-case", 0) as usize;
    let append = arg_num(args, "--append", 0) == 1;
    let sweep = arg_num(args, "--sweep", 12) as usize;
    let mut w = TraceWriter::open(out, append, 20_000);
    for id in start..n {
        let mut rng = Rng::new(seed.wrapping_mul(7_919_117).wrapping_add(id as u64));
        let p = Gen::new(&mut rng, Profile::named(&profile)).program();
        let pj = json!({"id": id, "profile": profile, "prog": p.to_json()});
        let compiled = match cao_lang::compiler::compile(p.to_module(), None) {
            Ok(c) => c,
            Err(_) => continue,
        };
        w.line(json!({"e": "Reset", "case": id, "profile": profile}));
        // reference run
        w.begin(id, &pj);
        // programs that need more than 200 000 instructions are not swept (see below), so the reference run does not have
        // to be able to run longer than that either: a generated loop that never ends is cut off here
        let (ev, out0, dig0) = match guarded(|| run_with_budget(&p, &compiled, 1_000_000)) {
            Ok(x) => x,
            Err(msg) => {
                w.end(json!({"e": "Panic", "case": id, "msg": msg, "n": "reference"}));
                continue;
            }
        };
        let k: u64 = ev.iter().filter(|e| matches!(e, Event::Instr { .. })).count() as u64;
        if k > 200_000 {
            w.end(json!({"e": "Note", "case": id, "k": k, "skipped": "needs more than 200000 instructions"}));
            continue;
        }
        for r in budget_events(&ev, &out0, &dig0) {
            w.line(r);
        }
        w.end(json!({"e": "Note", "case": id, "k": k}));
        // swept budgets
        // ... and budgets far beyond anything a run needs (a sufficient budget never changes the result, however large)
        let mut budgets: Vec<u64> = vec![0, 1, 2, k.saturating_sub(1), k, k + 1, k + 2, k / 2, k / 3 + 1, 2 * k + 5,
                                         1 << 32, (1 << 63) - 1, 1 << 63, (1 << 63) + 1, u64::MAX - 1, u64::MAX];
        while budgets.len() < sweep {
            budgets.push(1 + rng.below((k + 3) as usize) as u64);
        }
        budgets.sort();
        budgets.dedup();
        // one VM used twice: first with a large budget (most of it is left over), then with a budget below what the program needs
        if k >= 4 {
            w.begin(id, &json!({"id": id, "profile": profile, "prog": pj["prog"], "budget": "reused vm"}));
            let small = k / 2;
            match guarded(|| {
                verif::reset(true);
                let mut vm = make_vm(&p, &RunCfg { max_instr: 1_000_000 });
                let r1 = vm.run(&compiled);
                let o1 = observation(&vm, &compiled, &r1);
                vm.clear();
                vm.max_instr = small;
                let r2 = vm.run(&compiled);
                let ev = verif::take_events();
                verif::reset(false);
                let out2 = match &r2 {
                    Ok(()) => "Ok".to_string(),
                    Err(e) if format!("{:?}", e.payload).contains("Timeout") => "Timeout".to_string(),
                    Err(e) => format!("Err:{}", payload_kind(&e.payload)),
                };
                let _ = o1;
                (ev, out2)
            }) {
                Ok((ev, out2)) => {
                    // the events of both runs: each RunStart carries the budget of its run; the outcome of the first is the reference's
                    let mut first = true;
                    let mut cur: Vec<Event> = vec![];
                    for e in ev {
                        let end = matches!(e, Event::RunEnd { .. });
                        cur.push(e);
                        if end {
                            let (o, d) = if first { (out0.clone(), dig0.clone()) } else { (out2.clone(), "reused".to_string()) };
                            for r in budget_events(&cur, &o, &d) {
                                // the digest of the second run is not compared (k/2 < k: it must time out)
                                w.line(r);
                            }
                            cur.clear();
                            first = false;
                        }
                    }
                    w.end(json!({"e": "Note", "case": id, "budget": "reused vm"}));
                }
                Err(msg) => w.end(json!({"e": "Panic", "case": id, "msg": msg, "n": "reused vm"})),
            }
        }
        for b in budgets {
            w.begin(id, &json!({"id": id, "profile": profile, "prog": pj["prog"], "budget": b}));
            match guarded(|| run_with_budget(&p, &compiled, b)) {
                Ok((ev, o, d)) => {
                    for r in budget_events(&ev, &o, &d) {
                        w.line(r);
                    }
                    w.end(json!({"e": "Note", "case": id, "budget": b}));
                }
                Err(msg) => {
                    w.end(json!({"e": "Panic", "case": id, "msg": msg, "n": b}));
                    break;
                }
            }
        }
    }
    w.finish();
}

// ------------------------------------------------------------------------------------------ C05
fn alloc_events(ev: &[Event]) -> Vec<J> {
    let mut res = vec![];
    for e in ev {
        match e {
            Event::Alloc { charge, ok, allocated, live_bytes, .. } => {
                res.push(json!({"e": "Alloc", "charge": charge, "ok": ok, "allocated": allocated,
                                "live": live_bytes.map(|x| x as i64).unwrap_or(-1)}))
            }
            Event::Dealloc { charge, allocated } => res.push(json!({"e": "Dealloc", "charge": charge, "allocated": allocated})),
            Event::GcBegin { objects, allocated } => res.push(json!({"e": "GcBegin", "objects": objects, "allocated": allocated})),
            Event::GcEnd { objects, allocated, live_bytes } => res.push(json!({"e": "GcEnd", "objects": objects, "allocated": allocated,
                                "live": live_bytes.map(|x| x as i64).unwrap_or(-1)})),
            Event::Clear { allocated } => res.push(json!({"e": "Clear", "allocated": allocated})),
            _ => {}
        }
    }
    res
}

/// alloc-drive --profile P --seed S --n N --out FILE : programs under swept memory limits
pub fn alloc_drive(args: &[String]) {
    let seed = arg_num(args, "--seed", 1);
    let n = arg_num(args, "--n", 30) as usize;
    let profile = arg_val(args, "--profile").unwrap_or("alloc").to_string();
    let out = arg_val(args, "--out").expect("--out");
    let start = arg_num(args, "--start-case", 0) as usize;
    let append = arg_num(args, "--append", 0) == 1;
    let mut w = TraceWriter::open(out, append, 20_000);
    let limits = [3_000usize, 6_000, 12_000, 40_000, 400 * 1024];
    // hand-written (first case of the `alloc` profile): data that becomes garbage by mutation alone - a large table dropped by
    // overwriting the global that holds it - while no new object is created, then another table grows into the room
    let crafted = P { fns: vec![F { name: "main".into(), params: vec![], body: vec![
            setg("big", card("CreateTable", vec![])), setg("acc", card("CreateTable", vec![])),
            repeat("j", int(400), block(vec![setg("junk", card("CreateTable", vec![]))])),
            repeat("i", int(600), block(vec![card("AppendTable", vec![read("i"), read("big")])])),
            setg("big", nil()),
            repeat("k", int(600), block(vec![card("AppendTable", vec![read("k"), read("acc")])])),
            setg("n", card("Len", vec![read("acc")]))] }], natives: vec![], imports: vec![] };
    for id in start..n {
        let mut rng = Rng::new(seed.wrapping_mul(7_919_117).wrapping_add(id as u64));
        let is_crafted = id == 0 && profile == "alloc";
        let p = if is_crafted { crafted.clone() } else { Gen::new(&mut rng, Profile::named(&profile)).program() };
        let limits: Vec<usize> = if is_crafted { vec![72_000, 80_000, 100_000] } else { limits.to_vec() };
        let compiled = match cao_lang::compiler::compile(p.to_module(), None) {
            Ok(c) => c,
            Err(_) => continue,
        };
        for limit in limits {
            let pj = json!({"id": id, "profile": profile, "prog": p.to_json(), "limit": limit});
            w.begin(id, &pj);
            let r = guarded(|| {
                let mut vm = make_vm(&p, &RunCfg { max_instr: 3_000_000 });
                vm.runtime_data.set_memory_limit(limit);
                verif::reset(true);
                verif::with_hooks(|h| h.live_bytes_on_failure = true);
                let res = vm.run(&compiled);
                let out = match &res {
                    Ok(()) => "Ok".to_string(),
                    Err(e) => payload_kind(&e.payload),
                };
                vm.clear();
                let ev = verif::take_events();
                verif::reset(false);
                (ev, out)
            });
            match r {
                Ok((ev, outc)) => {
                    w.line(json!({"e": "Reset", "case": id, "limit": limit, "profile": profile}));
                    let evs = alloc_events(&ev);
                    // keep the files bounded: long runs are cut after a generous prefix (always at a safe point)
                    for r in evs.into_iter().take(60_000) {
                        w.line(r);
                    }
                    w.end(json!({"e": "RunEnd", "out": outc}));
                }
                Err(msg) => w.end(json!({"e": "Panic", "case": id, "msg": msg})),
            }
        }
    }
    w.finish();
}

// ------------------------------------------------------------------------------------------ C02
/// gc-drive --profile P --seed S --n N --out FILE --schedules K
/// every program is run without forced collections, with a collection at EVERY allocation, and with
/// K seeded random subsets of allocation numbers; each run is one record for CardSemCheck (the
/// reference semantics knows no collector, so every placement must give the specified outcome)
pub fn gc_drive(args: &[String]) {
    let seed = arg_num(args, "--seed", 1);
    let n = arg_num(args, "--n", 30) as usize;
    let profile = arg_val(args, "--profile").unwrap_or("alloc").to_string();
    let out = arg_val(args, "--out").expect("--out");
    let start = arg_num(args, "--start-case", 0) as usize;
    let append = arg_num(args, "--append", 0) == 1;
    let k = arg_num(args, "--schedules", 3) as usize;
    // --cases FILE: the programs are read from an ndjson file ({prog}) instead of being generated
    let cases: Option<Vec<J>> = arg_val(args, "--cases").map(|f| {
        std::fs::read_to_string(f).expect("cases file").lines().filter(|l| !l.trim().is_empty())
            .map(|l| serde_json::from_str::<J>(l).expect("case json")).collect()
    });
    let mut w = TraceWriter::open(out, append, 30_000);
    for id in start..n {
        let mut rng = Rng::new(seed.wrapping_mul(7_919_117).wrapping_add(id as u64));
        let p = match &cases {
            Some(cs) => {
                if id >= cs.len() {
                    break;
                }
                P::from_json(&cs[id]["prog"])
            }
            None => Gen::new(&mut rng, Profile::named(&profile)).program(),
        };
        let compiled = match cao_lang::compiler::compile(p.to_module(), None) {
            Ok(c) => c,
            Err(_) => continue,
        };
        // number of allocations of an undisturbed run
        w.begin(id, &json!({"id": id, "profile": profile, "prog": p.to_json(), "schedule": "undisturbed", "at": []}));
        verif::reset(false);
        let mut vm = make_vm(&p, &RunCfg::default());
        let _ = guarded(|| vm.run(&compiled));
        let allocs = verif::with_hooks(|h| h.alloc_count);
        drop(vm);
        let mut schedules: Vec<(String, bool, Vec<u64>)> = vec![("none".into(), false, vec![]), ("every".into(), true, vec![])];
        for j in 0..k {
            let m = 1 + rng.below(8);
            let set: Vec<u64> = (0..m).map(|_| rng.below(allocs.max(1) as usize) as u64).collect();
            schedules.push((format!("random{j}"), false, set));
        }
        for (name, every, set) in schedules {
            let pj = json!({"id": id, "profile": profile, "prog": p.to_json(), "schedule": name, "at": set});
            w.begin(id, &pj);
            let obs = match guarded(|| {
                verif::reset(false);
                verif::with_hooks(|h| {
                    h.force_gc_every = every;
                    h.force_gc_at = set.iter().copied().collect();
                });
                let o = observe_compiled(&p, &compiled, &RunCfg::default());
                verif::reset(false);
                o
            }) {
                Ok(o) => o,
                Err(msg) => json!({"st": "panic", "kind": msg, "globals": {}, "log": [], "trace": []}),
            };
            w.end(json!({"id": id, "profile": format!("{profile}/gc:{name}"), "prog": p.to_json(), "obs": obs, "cmp_loc": false,
                         "schedule": name, "at": set, "allocations": allocs}));
        }
    }
    w.finish();
}

// ------------------------------------------------------------------------------------------ C17
fn residue_json(vm: &Vm<Host>) -> J {
    let r = vm.runtime_data.verif_residue();
    json!({"stack": r.value_stack_len, "calls": r.call_stack_len, "globals": r.globals_len, "objects": r.objects,
           "upvals": r.open_upvalues, "allocated": r.allocated, "next_gc": r.next_gc})
}

/// accounted bytes once the VM has settled after a run: the host creates two objects the documented way and releases them
/// at once, then collects; what is left is what the globals reach
fn settled_bytes(vm: &mut Vm<Host>) -> u64 {
    if let Ok(g) = vm.init_string("released by the host") {
        let _ = g.into_inner();
    }
    if let Ok(g) = vm.init_table() {
        let _: Value = g.into();
    }
    vm.runtime_data.gc();
    vm.runtime_data.verif_residue().allocated as u64
}

fn life_programs(rng: &mut Rng) -> Vec<(String, P, u64)> {
    let natives = vec![Native { name: "fail0".into(), arity: 0, beh: "fail", types: vec![] },
                       Native { name: "log1".into(), arity: 1, beh: "log", types: vec!["value"] }];
    let mk = |main: Vec<C>, fns: Vec<F>| {
        let mut all = vec![F { name: "main".into(), params: vec![], body: main }];
        all.extend(fns);
        P { fns: all, natives: natives.clone(), imports: vec![] }
    };
    let f = |name: &str, params: &[&str], body: Vec<C>| F { name: name.into(), params: params.iter().map(|x| x.to_string()).collect(), body };
    let mut v = vec![];
    v.push(("ok-generated".to_string(), Gen::new(rng, Profile::named("basic")).program(), 100_000));
    v.push(("ok-closures".to_string(), Gen::new(rng, Profile::named("closures")).program(), 100_000));
    v.push(("ok-alloc".to_string(), Gen::new(rng, Profile::named("alloc")).program(), 3_000_000));
    v.push(("timeout".to_string(), mk(vec![setv("w", int(1)), card("While", vec![read("w"), block(vec![setg("g", read("w"))])])], vec![]), 500));
    v.push(("call-overflow".to_string(), mk(vec![call("r", vec![int(1)])], vec![f("r", &["x"], vec![card("Return", vec![call("r", vec![read("x")])])])]), 100_000));
    v.push(("stack-overflow".to_string(), mk(vec![repeat("i", int(400), block(vec![call("one", vec![])]))], vec![f("one", &[], vec![card("Return", vec![int(1)])])]), 100_000));
    v.push(("native-error".to_string(), mk(vec![setg("a", int(1)), native("fail0", vec![])], vec![]), 100_000));
    v.push(("type-error".to_string(), mk(vec![setg("a", strlit("x")), card("GetProperty", vec![int(1), int(2)])], vec![]), 100_000));
    // values left in stack slots by a call with three arguments / a local that is only declared in a branch that is not taken
    // (reading it yields nil, whatever an earlier run left in that slot)
    v.push(("three-arg-call".to_string(), mk(vec![setg("s", call("add3", vec![int(11), int(9), int(5)]))],
                                             vec![f("add3", &["x", "y", "z"], vec![card("Return", vec![card("Add", vec![read("x"), card("Add", vec![read("y"), read("z")])])])])]), 100_000));
    v.push(("untaken-branch-local".to_string(), mk(vec![setv("a", int(1)), card("IfTrue", vec![int(0), block(vec![setv("x", int(5)), setv("y", int(6))])]),
                                                        setv("x", int(8)), setg("g", read("y"))], vec![]), 100_000));
    v.push(("leaves-values".to_string(), mk(vec![call("one", vec![]), call("one", vec![]), setv("l", card("CreateTable", vec![])), setg("t", read("l"))],
                                             vec![f("one", &[], vec![card("Return", vec![strlit("left on the stack")])])]), 100_000));
    v
}

/// life-drive --seed S --n N --out FILE : random histories of runs / clears on one VM
pub fn life_drive(args: &[String]) {
    let seed = arg_num(args, "--seed", 1);
    let n = arg_num(args, "--n", 20) as usize;
    let len = arg_num(args, "--len", 12) as usize;
    let out = arg_val(args, "--out").expect("--out");
    let start = arg_num(args, "--start-case", 0) as usize;
    let append = arg_num(args, "--append", 0) == 1;
    let mut w = TraceWriter::open(out, append, 60_000);
    for id in start..n {
        let mut rng = Rng::new(seed.wrapping_mul(7_919_117).wrapping_add(id as u64));
        let progs = life_programs(&mut rng);
        let compiled: Vec<_> = progs.iter().map(|(_, p, _)| cao_lang::compiler::compile(p.to_module(), None)).collect();
        if compiled.iter().any(|c| c.is_err()) {
            continue;
        }
        let compiled: Vec<_> = compiled.into_iter().map(|c| c.unwrap()).collect();
        w.line(json!({"e": "Reset", "case": id}));
        // one VM for the whole history; every program has its own instruction budget
        let mut vm = make_vm(&progs[0].1, &RunCfg::default());
        let newres = {
            let fresh = make_vm(&progs[0].1, &RunCfg::default());
            residue_json(&fresh)
        };
        // the last history of a file repeats one fine program many times
        let long = id % 5 == 4;
        let steps = if long { 300 } else { len };
        let fixed = rng.below(3);
        let idx = |name: &str| progs.iter().position(|(n, _, _)| n == name).unwrap();
        // every history starts with: three-argument call, clear, the program that reads a never-written local slot
        let script: Vec<Option<usize>> = vec![Some(idx("three-arg-call")), None, Some(idx("untaken-branch-local")), Some(idx("three-arg-call")),
                                              Some(idx("untaken-branch-local"))];
        for step in 0..steps + script.len() {
            let scripted = if !long && step < script.len() { Some(script[step]) } else { None };
            if scripted == Some(None) || (scripted.is_none() && !long && rng.chance(1, 4)) {
                w.begin(id, &json!({"e": "Clear"}));
                let r = guarded(|| {
                    vm.clear();
                    residue_json(&vm)
                });
                match r {
                    Ok(res) => w.end(json!({"e": "Clear", "res": res, "newres": newres})),
                    Err(msg) => {
                        w.end(json!({"e": "Panic", "msg": msg}));
                        break;
                    }
                }
                continue;
            }
            let pi = match scripted {
                Some(Some(k)) => k,
                _ => if long { fixed } else { rng.below(progs.len()) },
            };
            let (name, p, budget) = &progs[pi];
            w.begin(id, &json!({"e": "Run", "p": name}));
            let r = guarded(|| {
                vm.max_instr = *budget;
                vm.get_aux_mut().log.borrow_mut().clear();
                let res = vm.run(&compiled[pi]);
                let mut o = observation(&vm, &compiled[pi], &res);
                o["trace"] = json!([]);
                let mut hres = residue_json(&vm);
                hres["live"] = json!(settled_bytes(&mut vm));
                let here = (digest(&o), hres);
                let mut fresh = make_vm(p, &RunCfg { max_instr: *budget });
                let fres = fresh.run(&compiled[pi]);
                let mut fo = observation(&fresh, &compiled[pi], &fres);
                fo["trace"] = json!([]);
                let mut fr = residue_json(&fresh);
                fr["live"] = json!(settled_bytes(&mut fresh));
                (here, (digest(&fo), fr), o["st"].clone(), o["kind"].clone())
            });
            match r {
                Ok(((out, res), (fout, fres), st, kind)) => w.end(json!({"e": "Run", "p": name, "out": out, "res": res, "fout": fout, "fres": fres,
                                                                            "st": st, "kind": kind})),
                Err(msg) => {
                    w.end(json!({"e": "Panic", "msg": msg}));
                    break;
                }
            }
        }
    }
    w.finish();
}

// ------------------------------------------------------------------------------------------ C02 snapshots
/// heap-drive --profile P --seed S --n N --out FILE : runs under forced collections with heap
/// snapshots; per collection {Snapshot, Free*, GcEnd}, object addresses renamed to small ids
pub fn heap_drive(args: &[String]) {
    use std::collections::HashMap;
    let seed = arg_num(args, "--seed", 1);
    let n = arg_num(args, "--n", 20) as usize;
    let profile = arg_val(args, "--profile").unwrap_or("alloc").to_string();
    let out = arg_val(args, "--out").expect("--out");
    let start = arg_num(args, "--start-case", 0) as usize;
    let append = arg_num(args, "--append", 0) == 1;
    let per_run = arg_num(args, "--collections", 12) as usize;
    // --cases FILE: the programs are read from an ndjson file ({prog}) instead of being generated
    let cases: Option<Vec<J>> = arg_val(args, "--cases").map(|f| {
        std::fs::read_to_string(f).expect("cases file").lines().filter(|l| !l.trim().is_empty())
            .map(|l| serde_json::from_str::<J>(l).expect("case json")).collect()
    });
    let mut w = TraceWriter::open(out, append, 30_000);
    for id in start..n {
        let mut rng = Rng::new(seed.wrapping_mul(7_919_117).wrapping_add(id as u64));
        let p = match &cases {
            Some(cs) => {
                if id >= cs.len() {
                    break;
                }
                P::from_json(&cs[id]["prog"])
            }
            None => Gen::new(&mut rng, Profile::named(&profile)).program(),
        };
        let compiled = match cao_lang::compiler::compile(p.to_module(), None) {
            Ok(c) => c,
            Err(_) => continue,
        };
        w.begin(id, &json!({"id": id, "profile": profile, "prog": p.to_json(), "phase": "count"}));
        verif::reset(false);
        let mut vm = make_vm(&p, &RunCfg::default());
        let _ = guarded(|| vm.run(&compiled));
        let allocs = verif::with_hooks(|h| h.alloc_count).max(1);
        drop(vm);
        let at: Vec<u64> = (0..per_run).map(|_| rng.below(allocs as usize) as u64).collect();
        w.begin(id, &json!({"id": id, "profile": profile, "prog": p.to_json(), "at": at}));
        let r = guarded(|| {
            verif::reset(true);
            verif::with_hooks(|h| {
                h.snapshots = true;
                h.force_gc_at = at.iter().copied().collect();
            });
            let mut vm = make_vm(&p, &RunCfg::default());
            let _ = vm.run(&compiled);
            let ev = verif::take_events();
            // the run is over: no instruction or host function is in progress, so no guard exists any more.  The host
            // creates two objects the documented way, releases them at once, and collects: the collector must find
            // nothing guarded and must free them (and everything else the globals do not reach)
            {
                let a = vm.init_string("released by the host");
                if let Ok(g) = a {
                    let _ = g.into_inner();
                }
                let b = vm.init_table();
                if let Ok(g) = b {
                    let _: Value = g.into();
                }
            }
            vm.runtime_data.gc();
            let ev2 = verif::take_events();
            verif::reset(false);
            (ev, ev2)
        });
        let (ev, ev2) = match r {
            Ok(x) => x,
            Err(msg) => {
                w.end(json!({"e": "Panic", "case": id, "msg": msg}));
                continue;
            }
        };
        w.line(json!({"e": "Reset", "case": id, "profile": profile}));
        let mut ids: HashMap<usize, usize> = HashMap::new();
        let n1 = ev.len();
        for (pos, e) in ev.into_iter().chain(ev2.into_iter()).enumerate() {
            if pos == n1 {
                w.line(json!({"e": "Quiesce"}));
            }
            match e {
                Event::GcSnapshot(s) => {
                    ids.clear();
                    for (k, (a, _, _)) in s.objects.iter().enumerate() {
                        ids.insert(*a, k + 1);
                    }
                    // an address that is not an object of the list is reported as id 0 (never live)
                    let m = |v: &Vec<usize>| v.iter().map(|a| ids.get(a).copied().unwrap_or(0)).collect::<Vec<_>>();
                    let objects: Vec<J> = s.objects.iter().map(|(a, kind, edges)| json!({"id": ids[a], "kind": kind, "edges": m(edges)})).collect();
                    w.line(json!({"e": "Snapshot", "stack": m(&s.stack), "globals": m(&s.globals), "frames": m(&s.frames),
                                  "upvals": m(&s.upvals), "guards": m(&s.guards), "objects": objects}));
                }
                Event::GcFree { addr } => w.line(json!({"e": "Free", "id": ids.get(&addr).copied().unwrap_or(0)})),
                Event::GcEnd { .. } => w.line(json!({"e": "GcEnd"})),
                _ => {}
            }
        }
        w.end(json!({"e": "Note", "case": id}));
    }
    w.finish();
}

// ------------------------------------------------------------------ instruction-level traces (VmInstrTrace)
const OPS: &[&str] = &["Add", "Sub", "Mul", "Div", "CallNative", "ScalarInt", "ScalarFloat", "ScalarNil", "StringLiteral", "CopyLast", "Exit",
    "CallFunction", "Equals", "NotEquals", "Less", "LessOrEq", "Pop", "SetGlobalVar", "ReadGlobalVar", "SetLocalVar",
    "ReadLocalVar", "ClearStack", "Return", "SwapLast", "And", "Or", "Xor", "Not", "Goto", "GotoIfTrue", "GotoIfFalse",
    "InitTable", "GetProperty", "SetProperty", "Len", "BeginForEach", "ForEach", "FunctionPointer", "NativeFunctionPointer",
    "NthRow", "AppendTable", "PopTable", "Closure", "SetUpvalue", "ReadUpvalue", "RegisterUpvalue", "CloseUpvalue"];

/// the harness's own decoder: name, length in bytes and the operands the instruction-level model needs
fn decode_at(bc: &[u8], ip: usize, arity_of: &dyn Fn(u32) -> i64) -> (String, usize, Vec<i64>) {
    let op = bc.get(ip).copied().unwrap_or(255) as usize;
    let name = OPS.get(op).copied().unwrap_or("?").to_string();
    let u32_at = |o: usize| -> i64 {
        if o + 4 <= bc.len() {
            u32::from_le_bytes([bc[o], bc[o + 1], bc[o + 2], bc[o + 3]]) as i64
        } else {
            -1
        }
    };
    let (width, args): (usize, Vec<i64>) = match name.as_str() {
        "Goto" | "GotoIfTrue" | "GotoIfFalse" | "SetLocalVar" | "ReadLocalVar" | "SetUpvalue" | "ReadUpvalue" => (4, vec![u32_at(ip + 1)]),
        // the number of parameters of the host function, when the harness registered it itself (-1: library native)
        "CallNative" => (4, vec![arity_of(u32_at(ip + 1) as u32)]),
        "StringLiteral" | "NativeFunctionPointer" | "SetGlobalVar" | "ReadGlobalVar" => (4, vec![0]),
        "ScalarInt" | "ScalarFloat" => (8, vec![0]),
        "FunctionPointer" | "Closure" => (8, vec![u32_at(ip + 5)]),
        "BeginForEach" | "ForEach" => (20, (0..5).map(|k| u32_at(ip + 1 + 4 * k)).collect()),
        "RegisterUpvalue" => (2, vec![bc.get(ip + 1).copied().unwrap_or(0) as i64, bc.get(ip + 2).copied().unwrap_or(0) as i64]),
        _ => (0, vec![0]),
    };
    (name, 1 + width, args)
}

/// a value of the value stack as VmData.tla reads it: [t, v, x]
fn stack_val(v: &verif::StackVal, ids: &mut std::collections::HashMap<usize, i64>) -> J {
    match v {
        verif::StackVal::Nil => json!({"t": "n", "v": 0, "x": ""}),
        verif::StackVal::Int(i) if i.abs() < (1 << 30) => json!({"t": "i", "v": i, "x": ""}),
        verif::StackVal::Int(i) => json!({"t": "I", "v": 0, "x": i.to_string()}),
        verif::StackVal::Real(b) => json!({"t": "r", "v": if f64::from_bits(*b) != 0.0 { 1 } else { 0 }, "x": format!("{:016x}", b)}),
        verif::StackVal::Obj(a) => {
            let n = ids.len() as i64 + 1;
            json!({"t": "o", "v": *ids.entry(*a).or_insert(n), "x": ""})
        }
    }
}

fn instr_events(ev: &[Event], bc: &[u8], p: &P) -> Vec<J> {
    instr_events_tf(ev, bc, p, &Default::default())
}

/// `tf`: instruction address -> "namespace/function" of the card the compiler's source trace gives for it
fn instr_events_tf(ev: &[Event], bc: &[u8], p: &P, tf: &std::collections::HashMap<u32, String>) -> Vec<J> {
    use std::str::FromStr;
    let mut arities: std::collections::HashMap<u32, i64> = Default::default();
    for n in p.natives.iter().chain(typed_registry().iter()) {
        arities.insert(Handle::from_str(&n.name).unwrap().value(), n.arity as i64);
    }
    let arity_of = move |h: u32| -> i64 { arities.get(&h).copied().unwrap_or(-1) };
    let mut res: Vec<J> = vec![];
    let mut ids: std::collections::HashMap<usize, i64> = Default::default();
    // does the program assign captured variables?  (then a callee may change a slot of its caller)
    let mut uv = false;
    let mut q = 0usize;
    while q < bc.len() {
        let (name, n, _) = decode_at(bc, q, &|_| -1);
        uv |= name == "SetUpvalue";
        q += n;
    }
    for e in ev {
        match e {
            Event::Instr { ip, depth, stack_h, call_h, frame_off, .. } => {
                let (name, n, a) = decode_at(bc, *ip as usize, &arity_of);
                res.push(json!({"e": "I", "ip": ip, "op": name, "n": n, "a": a, "h": stack_h, "c": call_h, "fo": frame_off, "d": depth,
                                "tf": tf.get(ip).cloned().unwrap_or_default()}));
            }
            Event::Stack(vals) => {
                // belongs to the instruction record just written: the stack, the immediate value and the global id
                if let Some(last) = res.last_mut() {
                    let ip = last["ip"].as_u64().unwrap_or(0) as usize;
                    let op = last["op"].as_str().unwrap_or("").to_string();
                    let i64_at = |o: usize| -> i64 { if o + 8 <= bc.len() { i64::from_le_bytes(bc[o..o + 8].try_into().unwrap()) } else { 0 } };
                    let u32_at = |o: usize| -> i64 { if o + 4 <= bc.len() { u32::from_le_bytes(bc[o..o + 4].try_into().unwrap()) as i64 } else { 0 } };
                    let imm = match op.as_str() {
                        "ScalarInt" => stack_val(&verif::StackVal::Int(i64_at(ip + 1)), &mut ids),
                        "ScalarFloat" => stack_val(&verif::StackVal::Real(i64_at(ip + 1) as u64), &mut ids),
                        _ => json!({"t": "n", "v": 0, "x": ""}),
                    };
                    let g = match op.as_str() { "SetGlobalVar" | "ReadGlobalVar" => u32_at(ip + 1), _ => 0 };
                    last["s"] = J::Array(vals.iter().map(|v| stack_val(v, &mut ids)).collect());
                    last["imm"] = imm;
                    last["g"] = json!(g);
                    last["uv"] = json!(uv);
                }
            }
            Event::RunStart { .. } => res.push(json!({"e": "RunStart"})),
            Event::RunEnd { ok } => res.push(json!({"e": "RunEnd", "ok": ok})),
            Event::Reenter { stack_h, call_h } => res.push(json!({"e": "Reenter", "h": stack_h, "c": call_h})),
            Event::ReenterEnd { stack_h, call_h, ok } => res.push(json!({"e": "ReenterEnd", "h": stack_h, "c": call_h, "ok": ok})),
            _ => {}
        }
    }
    res
}

/// instr-drive --profile P --seed S --n N --out FILE [--max-events K]
pub fn instr_drive(args: &[String]) {
    let seed = arg_num(args, "--seed", 1);
    let n = arg_num(args, "--n", 50) as usize;
    let profile = arg_val(args, "--profile").unwrap_or("calls").to_string();
    let out = arg_val(args, "--out").expect("--out");
    let start = arg_num(args, "--start-case", 0) as usize;
    let append = arg_num(args, "--append", 0) == 1;
    let max_events = arg_num(args, "--max-events", 4000) as usize;
    VALUES.with(|v| v.set(arg_num(args, "--values", 0) == 1));
    // --vary-budget 1: every case gets its own small budget, so that runs end in Timeout at all kinds of instructions
    let vary = arg_num(args, "--vary-budget", 0) == 1;
    let mut w = TraceWriter::open(out, append, 20_000);
    // with the `hosttry` profile the first cases are hand-written: a recursion that reaches the last call frames and, at the
    // bottom, a host function that re-enters the interpreter and handles the failure (call-stack overflow of the re-entry)
    let crafted: Vec<P> = if profile == "hosttry" {
        (249..258).map(|depth: i64| {
            let f = |name: &str, params: &[&str], body: Vec<C>| F { name: name.into(), params: params.iter().map(|x| x.to_string()).collect(), body };
            // (the recursion keeps nothing on the value stack: the countdown lives in a global)
            P { fns: vec![f("main", &[], vec![setv("keep", int(5)), setg("cnt", int(depth)), setg("r", call("rec", vec![])), setg("k", read("keep"))]),
                          f("rec", &[], vec![setg("cnt", card("Sub", vec![read("cnt"), int(1)])),
                                             card("IfTrue", vec![card("Less", vec![int(0), read("cnt")]), card("Return", vec![call("rec", vec![])])]),
                                             setg("t", native("try1", vec![closure(&["p"], vec![card("Return", vec![card("Add", vec![read("p"), int(1)])])]), int(40)])),
                                             setg("after", int(1)),
                                             card("Return", vec![int(3)])])],
                natives: vec![], imports: vec![] }
        }).collect()
    } else {
        vec![]
    };
    for id in start..n {
        let mut rng = Rng::new(seed.wrapping_mul(7_919_117).wrapping_add(id as u64));
        let p = if id < crafted.len() { crafted[id].clone() } else { Gen::new(&mut rng, Profile::named(&profile)).program() };
        let pj = json!({"id": id, "profile": profile, "prog": p.to_json()});
        let compiled = match cao_lang::compiler::compile(p.to_module(), None) {
            Ok(c) => c,
            Err(_) => continue,
        };
        let mut labels: Vec<u32> = compiled.labels.0.iter().map(|(_, l)| l.pos).collect();
        labels.sort();
        labels.dedup();
        w.begin(id, &pj);
        // a budget keeps the recorded run short; the run may end in Timeout, which the model admits after any instruction
        let budget = if vary { 5 + rng.below(max_events) as u64 } else { max_events as u64 };
        match guarded(|| run_with_budget(&p, &compiled, budget)) {
            Ok((ev, out, _)) => {
                // instruction starts according to the harness's own front-to-back decoding
                let mut starts: Vec<usize> = vec![];
                let mut q = 0usize;
                while q < compiled.bytecode.len() {
                    starts.push(q);
                    q += decode_at(&compiled.bytecode, q, &|_| -1).1;
                }
                w.line(json!({"e": "Prog", "case": id, "profile": profile, "labels": labels, "starts": starts, "end": compiled.bytecode.len() - 1}));
                let tf: std::collections::HashMap<u32, String> = compiled.trace.iter().map(|(k, t)| {
                    let v = &trace_json(std::slice::from_ref(t))[0];
                    (*k, format!("{}/{}", v["ns"], v["f"]))
                }).collect();
                let mut recs = instr_events_tf(&ev, &compiled.bytecode, &p, &tf);
                // the outermost RunEnd carries how the run ended and where the error says it happened
                let et = LAST_ERR_TRACE.with(|t| t.borrow().clone());
                if let Some(last) = recs.iter_mut().rev().find(|r| r["e"] == "RunEnd") {
                    last["out"] = json!(out);
                    last["etrace"] = match &et {
                        J::Array(a) => J::Array(a.iter().map(|x| json!(format!("{}/{}", x["ns"], x["f"]))).collect()),
                        _ => json!([]),
                    };
                }
                for r in recs {
                    w.line(r);
                }
                w.end(json!({"e": "Note", "case": id}));
            }
            Err(msg) => w.end(json!({"e": "Panic", "case": id, "msg": msg})),
        }
    }
    w.finish();
}


// ------------------------------------------------------------------ closures that outlive the run that created them (C06)
thread_local! {
    static RUN_NO: std::cell::Cell<i64> = std::cell::Cell::new(0);
}

/// persist-drive --out FILE : one VM, one program run three times.  In its first run the program stores a closure over locals
/// of `main` in a global; every run gives those locals other values and calls the stored closure.  The closure keeps the
/// values its variables had when the first run ended.  Events {e:"Persist", what, want, got, caller_want, caller_got}.
pub fn persist_drive(args: &[String]) {
    let out = arg_val(args, "--out").expect("--out");
    let mut w = TraceWriter::open(out, false, 30_000);
    let f = |name: &str, params: &[&str], body: Vec<C>| F { name: name.into(), params: params.iter().map(|x| x.to_string()).collect(), body };
    for variant in 0..4usize {
        w.line(json!({"e": "Reset", "case": variant}));
        let first = || card("Equals", vec![native("run_no", vec![]), int(1)]);
        let rd = || closure(&[], vec![card("Return", vec![card("Add", vec![read("x"), read("y")])])]);
        // x = 1000 * run number, y = 20 (+1 after the closure was made in variant 1)
        let mut body = vec![setv("x", card("Mul", vec![native("run_no", vec![]), int(1000)])), setv("y", int(20))];
        match variant {
            0 => body.push(card("IfTrue", vec![first(), setg("rd", rd())])),
            1 => {
                body.insert(0, setv("pad", int(7)));
                body.push(card("IfTrue", vec![first(), setg("rd", rd())]));
                body.push(setv("y", int(21)));
            }
            2 => body.push(card("IfTrue", vec![first(), block(vec![card("Comment", vec![]), setg("rd", rd())])])),
            _ => {
                body.push(card("IfTrue", vec![first(), setg("rd", rd())]));
                body.push(setg("other", call("mk", vec![read("y")])));
            }
        }
        body.push(setg("r", dyncall(read("rd"), vec![])));
        body.push(setg("mine", card("Add", vec![read("x"), read("y")])));
        let p = P { fns: vec![f("main", &[], body),
                              f("mk", &["a"], vec![setv("l", int(100)), card("Return", vec![closure(&[], vec![card("Return", vec![card("Add", vec![read("a"), read("l")])])])])])],
                    natives: vec![], imports: vec![] };
        let c = match cao_lang::compiler::compile(p.to_module(), None) {
            Ok(c) => c,
            Err(_) => {
                w.line(json!({"e": "Panic", "msg": "probe program does not compile"}));
                continue;
            }
        };
        w.begin(variant, &json!({"e": "Persist", "variant": variant}));
        let r = guarded(|| {
            let mut vm = make_vm(&p, &RunCfg::default());
            vm.register_native_function("run_no", |_vm: &mut Vm<Host>| Ok(Value::Integer(RUN_NO.with(|c| c.get())))).unwrap();
            let mut got = vec![];
            for run in 1..=3i64 {
                RUN_NO.with(|c| c.set(run));
                let ok = vm.run(&c).is_ok();
                let unset = || json!({"t": "unset"});
                let r = vm.read_var_by_name("r", &c.variables).map(|v| deep(v, 0)).unwrap_or_else(unset);
                let mine = vm.read_var_by_name("mine", &c.variables).map(|v| deep(v, 0)).unwrap_or_else(unset);
                got.push((run, ok, r, mine));
            }
            got
        });
        match r {
            Ok(got) => {
                for (run, ok, r, mine) in got {
                    // the closure's variables: x = 1000 and y = 20 (21 in variant 1, written after the capture) from the first run
                    let y = if variant == 1 { 21 } else { 20 };
                    let want = 1000 + y;
                    let _ = run;
                    let mine_want = run * 1000 + y;
                    w.line(json!({"e": "Persist", "what": format!("variant {variant}, run {run}: closure over locals of main made by the first run"),
                                  "made": true, "ok": ok, "want": {"e":0,"i":want,"s":"","t":"int"}, "got": r,
                                  "caller_want": {"e":0,"i":mine_want,"s":"","t":"int"}, "caller_got": mine}));
                }
                w.end(json!({"e": "Note", "case": variant}));
            }
            Err(msg) => w.end(json!({"e": "Panic", "msg": msg})),
        }
    }
    // a closure over a PARAMETER of a called-back function escapes, the callee then fails and the host function handles the
    // failure: the closure keeps the parameter's value, the caller's locals are untouched
    w.line(json!({"e": "Reset", "case": 4}));
    {
        let esc = closure(&[], vec![card("Return", vec![read("p")])]);
        let cb = closure(&["p"], vec![setg("esc", esc), setv("q", card("Add", vec![read("p"), int(1)])),
                                      setg("esc2", closure(&[], vec![card("Return", vec![read("q")])])), native("fail0", vec![]), card("Return", vec![int(0)])]);
        let body = vec![setv("r", int(7)), setg("t", native("try1", vec![cb, int(42)])), setv("s", int(99)),
                        setg("out", dyncall(read("esc"), vec![])), setg("out2", dyncall(read("esc2"), vec![])),
                        setg("mine", card("Add", vec![read("r"), read("s")]))];
        let p = P { fns: vec![f("main", &[], body)], natives: vec![Native { name: "fail0".into(), arity: 0, beh: "fail", types: vec![] }], imports: vec![] };
        if let Ok(c) = cao_lang::compiler::compile(p.to_module(), None) {
            w.begin(4, &json!({"e": "Persist", "variant": 4}));
            let r = guarded(|| {
                let mut vm = make_vm(&p, &RunCfg::default());
                let ok = vm.run(&c).is_ok();
                let unset = || json!({"t": "unset"});
                let rd = |n: &str| vm.read_var_by_name(n, &c.variables).map(|v| deep(v, 0)).unwrap_or_else(unset);
                (ok, rd("out"), rd("out2"), rd("mine"))
            });
            match r {
                Ok((ok, out, out2, mine)) => {
                    let int = |n: i64| json!({"e":0,"i":n,"s":"","t":"int"});
                    w.line(json!({"e": "Persist", "what": "closure over a parameter of a called-back function that failed", "made": true, "ok": ok,
                                  "want": int(42), "got": out, "caller_want": int(106), "caller_got": mine}));
                    w.line(json!({"e": "Persist", "what": "closure over a local of a called-back function that failed", "made": true, "ok": ok,
                                  "want": int(43), "got": out2, "caller_want": int(106), "caller_got": mine}));
                    w.end(json!({"e": "Note", "case": 4}));
                }
                Err(msg) => w.end(json!({"e": "Panic", "msg": msg})),
            }
        }
    }
    w.finish();
}
