#[doc(hidden)]
pub mod __private228 {
    #[doc(hidden)]
    pub use crate::private::*;
}
