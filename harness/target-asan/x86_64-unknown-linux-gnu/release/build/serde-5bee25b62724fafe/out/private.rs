#[doc(hidden)]
pub mod __private228 {
    #[doc(hidden)]
    pub use crate::private::*;
}
use serde_core::__private228 as serde_core_private;
