#[doc(hidden)]
pub mod __private17 {
    #[doc(hidden)]
    pub use crate::private::*;
}
