"""Shared machinery for /verif checks: harness build, TLC runner, case runner with crash
isolation, violation bookkeeping (known findings), evidence writer."""
import json, os, re, subprocess, sys, time, hashlib, shutil, signal, threading, queue

ROOT = os.path.dirname(os.path.dirname(os.path.abspath(__file__)))
SPEC = os.path.join(ROOT, "spec")
HARNESS = os.path.join(ROOT, "harness")
CV = os.path.join(HARNESS, "target", "release", "cv")
WORK = os.path.join(ROOT, "work")          # scratch (git-ignored), never /tmp
EVID = os.path.join(ROOT, "evidence")
REPLAYS = os.path.join(ROOT, "replays")
TLA_JAR = "/opt/veriftools/tla/tla2tools.jar:/opt/veriftools/tla/CommunityModules-deps.jar"


class ToolError(Exception):
    pass


def workdir(name):
    d = os.path.join(WORK, name)
    shutil.rmtree(d, ignore_errors=True)
    os.makedirs(d, exist_ok=True)
    return d


def build_harness(quiet=True):
    """(Re)build the harness against /repo's current working tree. cargo notices edited
    sources through the path dependency."""
    env = dict(os.environ, CARGO_NET_OFFLINE="true")
    lock = os.path.join(HARNESS, "Cargo.lock")
    if not os.path.exists(lock):
        shutil.copy("/repo/Cargo.lock", lock)
    t0 = time.time()
    p = subprocess.run(["cargo", "build", "--release", "--offline", "--bin", "cv"], cwd=HARNESS,
                       env=env, stdout=subprocess.PIPE, stderr=subprocess.STDOUT, text=True)
    if p.returncode != 0:
        sys.stdout.write(p.stdout[-6000:])
        raise ToolError("harness build failed (the repository tree does not compile with the harness)")
    return time.time() - t0


# ----------------------------------------------------------------------------- TLC

_PRINT_RE = re.compile(r'^<<"([A-Z][A-Z0-9-]*)", (.*)>>$')


def _parse_print(line):
    m = _PRINT_RE.match(line)
    if not m:
        return None
    tag, rest = m.group(1), m.group(2)
    rest = rest.strip()
    if rest.startswith('"') and rest.endswith('"'):
        try:
            text = json.loads(rest)
        except Exception:
            return (tag, rest)
        try:
            return (tag, json.loads(text))
        except Exception:
            return (tag, text)
    try:
        return (tag, int(rest))
    except Exception:
        return (tag, rest)


def tlc(module, cfg, workers=4, simulate=None, depth=None, seed=None, env=None, timeout=900,
        heap="4g", stack=None, deque=False, coverage=False, name=None, extra=None, on_print=None):
    """Run TLC. Returns dict(ok, generated, distinct, depth, prints, errors, out, wall)."""
    name = name or (os.path.splitext(os.path.basename(cfg))[0])
    meta = workdir("tlc-" + name)
    jopts = ["-XX:+UseParallelGC", "-Xmx" + heap]
    if stack:
        jopts.append("-Xss" + stack)
    if deque:
        jopts.append("-Dtlc2.tool.queue.IStateQueue=StateDeque")
    cmd = ["java"] + jopts + ["-cp", TLA_JAR, "tlc2.TLC", "-workers", str(workers), "-metadir", meta,
                              "-cleanup", "-noGenerateSpecTE", "-config", cfg]
    if simulate is not None:
        cmd += ["-simulate", "num=%d" % simulate]
        if depth:
            cmd += ["-depth", str(depth)]
        if seed is not None:
            cmd += ["-seed", str(seed)]
    if coverage:
        cmd += ["-coverage", "1"]
    if extra:
        cmd += extra
    cmd.append(module)
    e = dict(os.environ)
    e.pop("JAVA_TOOL_OPTIONS", None)
    if env:
        e.update(env)
    t0 = time.time()
    prints, errors, tail = [], [], []
    gen = dist = dep = None
    proc = subprocess.Popen(cmd, cwd=SPEC, env=e, stdout=subprocess.PIPE, stderr=subprocess.STDOUT, text=True,
                            errors="replace")
    timer = threading.Timer(timeout, lambda: proc.kill())
    timer.start()
    timed_out = False
    try:
        for line in proc.stdout:
            line = line.rstrip("\n")
            if line.startswith('<<"'):
                pr = _parse_print(line)
                if pr:
                    if on_print:
                        on_print(pr)
                    else:
                        prints.append(pr)
                    continue
            tail.append(line)
            if len(tail) > 400:
                del tail[:200]
            if line.startswith("Error:") or " Error: " in line[:40] or "Invariant" in line and "violated" in line:
                errors.append(line)
            m = re.match(r"^(\d+) states generated, (\d+) distinct states found", line)
            if m:
                gen, dist = int(m.group(1)), int(m.group(2))
            m = re.match(r"^The depth of the complete state graph search is (\d+)", line)
            if m:
                dep = int(m.group(1))
            m = re.match(r"^The number of states generated: (\d+)", line)
            if m:
                gen = int(m.group(1))
                dist = dist or gen
        proc.wait()
    finally:
        if not timer.is_alive():
            timed_out = True
        timer.cancel()
    shutil.rmtree(meta, ignore_errors=True)
    wall = time.time() - t0
    ok = proc.returncode == 0 and not errors
    return dict(ok=ok, rc=proc.returncode, generated=gen or 0, distinct=dist or 0, depth=dep, prints=prints,
                errors=errors, out="\n".join(tail), wall=wall, timed_out=timed_out, cmd=" ".join(cmd))


def require_tlc_ok(r, what):
    if r["timed_out"]:
        raise ToolError("TLC timed out: " + what)
    if not r["ok"]:
        sys.stdout.write(r["out"][-5000:] + "\n")
        raise ToolError("TLC reported an error in %s (rc=%s): %s" % (what, r["rc"], "; ".join(r["errors"][:3])))


def tlc_trace(module, cfg, trace_file, name=None, timeout=900, extra_env=None, heap="3g"):
    """Validate one ndjson trace against a *Trace spec. The spec prints <<"MISMATCH", json>> per
    rejected case and <<"TRACE-DONE", n>> when the whole file was consumed."""
    env = {"TRACE": trace_file}
    if extra_env:
        env.update(extra_env)
    r = tlc(module, cfg, workers=1, env=env, timeout=timeout, heap=heap, stack="1g", deque=True, name=name)
    require_tlc_ok(r, "trace validation %s" % os.path.basename(trace_file))
    done = [p for p in r["prints"] if p[0] == "TRACE-DONE"]
    if not done:
        sys.stdout.write(r["out"][-3000:] + "\n")
        raise ToolError("trace spec did not consume the whole trace: " + trace_file)
    r["mismatches"] = [p[1] for p in r["prints"] if p[0] == "MISMATCH"]
    r["consumed"] = done[-1][1]
    return r


def parallel(jobs, nproc=8):
    """jobs: list of zero-arg callables; returns results in order; raises first exception."""
    res = [None] * len(jobs)
    errs = []
    q = queue.Queue()
    for i, j in enumerate(jobs):
        q.put((i, j))

    def worker():
        while True:
            try:
                i, j = q.get_nowait()
            except queue.Empty:
                return
            try:
                res[i] = j()
            except Exception as ex:  # noqa
                errs.append(ex)

    ts = [threading.Thread(target=worker) for _ in range(min(nproc, len(jobs)))]
    for t in ts:
        t.start()
    for t in ts:
        t.join()
    if errs:
        raise errs[0]
    return res


# ----------------------------------------------------------------------------- harness runner


def cv(args, timeout=600, input_text=None):
    p = subprocess.run([CV] + [str(a) for a in args], stdout=subprocess.PIPE, stderr=subprocess.PIPE, text=True,
                       timeout=timeout, input=input_text)
    if p.returncode != 0:
        sys.stdout.write(p.stderr[-3000:])
        raise ToolError("harness command failed: cv " + " ".join(map(str, args)))
    return p.stdout


CV_ASAN = os.path.join(HARNESS, "target-asan", "x86_64-unknown-linux-gnu", "release", "cv")


def build_harness_asan():
    """AddressSanitizer build of the harness (nightly toolchain, offline). Makes reads/writes of freed
    interpreter memory visible as aborts. Returns the binary path, or None when the toolchain cannot build it."""
    env = dict(os.environ, CARGO_NET_OFFLINE="true", RUSTFLAGS="-Zsanitizer=address",
               CARGO_TARGET_DIR=os.path.join(HARNESS, "target-asan"))
    p = subprocess.run(["cargo", "+nightly", "build", "--release", "--offline", "--bin", "cv", "--target", "x86_64-unknown-linux-gnu"],
                       cwd=HARNESS, env=env, stdout=subprocess.PIPE, stderr=subprocess.STDOUT, text=True)
    if p.returncode != 0 or not os.path.exists(CV_ASAN):
        return None
    return CV_ASAN


def asan_summary(stderr):
    lines = stderr.splitlines()
    for i, l in enumerate(lines):
        if "ERROR: AddressSanitizer" in l:
            frames = [x.strip() for x in lines[i + 1:i + 60] if "cao_lang" in x or "cao-lang" in x][:4]
            what = l.split("AddressSanitizer:")[1].strip().split(" on address")[0]
            return what + " | " + " | ".join(re.sub(r"^#\d+ 0x[0-9a-f]+ in ", "", f) for f in frames)
    return None


def drive_trace(cmd_args, out, n_cases, timeout=600, max_crashes=4, on_crash=None, binary=None):
    """Run an impl->spec driver `cv <cmd_args> --out OUT --start-case K [--append 1]` with crash isolation
    (see harness util.rs TraceWriter). Returns the number of crashes/hangs turned into records."""
    start, crashes = 0, 0
    if os.path.exists(out):
        os.remove(out)
    while True:
        args = [binary or CV] + [str(a) for a in cmd_args] + ["--out", out, "--start-case", str(start), "--append", "1" if start else "0"]
        try:
            p = subprocess.run(args, stdout=subprocess.PIPE, stderr=subprocess.PIPE, text=True, timeout=timeout,
                               env=dict(os.environ, ASAN_OPTIONS="detect_leaks=0:abort_on_error=0:symbolize=1"))
            rc = p.returncode
        except subprocess.TimeoutExpired:
            raise ToolError("driver timed out: " + " ".join(map(str, cmd_args)))
        if rc == 0:
            return crashes
        pend = out + ".pending"
        if not os.path.exists(pend):
            sys.stdout.write(p.stderr[-2000:])
            raise ToolError("driver failed outside an operation rc=%s: %s" % (rc, " ".join(map(str, cmd_args))))
        info = json.load(open(pend))
        os.remove(pend)
        kind = "hang" if rc == 3 else "abort"
        asan = asan_summary(p.stderr)
        if asan:
            rc = "asan: " + asan
        with open(out, "a") as f:
            rec = on_crash(info, kind, rc) if on_crash else {"e": kind.capitalize(), "case": info["case"], "op": info["op"], "ret": {kind: rc}, "proj": {kind: True}}
            f.write(json.dumps(rec) + "\n")
        crashes += 1
        start = info["case"] + 1
        if crashes >= max_crashes or start >= n_cases:
            return crashes


def run_cases(cmd_args, cases_file, n_cases, idle_timeout=20.0, max_crashes=4):
    """Run `cv <cmd_args> <cases_file> --skip K` with crash isolation. The harness prints
    `BEGIN i` before and `RESULT i <json>` after every case. A dead or silent child turns the
    case it was working on into an Abort / Hang result and the run continues after it."""
    results = {}
    skip = 0
    crashes = 0
    while skip < n_cases:
        if crashes >= max_crashes:
            # the same defect usually repeats; the remaining cases of this batch are not executed
            for i in range(skip, n_cases):
                results[i] = {"status": "skipped"}
            break
        proc = subprocess.Popen([CV] + [str(a) for a in cmd_args] + [cases_file, "--skip", str(skip)],
                                stdout=subprocess.PIPE, stderr=subprocess.PIPE, text=True, errors="replace")
        current = None
        lines = queue.Queue()

        def reader():
            for ln in proc.stdout:
                lines.put(ln)
            lines.put(None)

        def drain_err():
            for _ in proc.stderr:
                pass

        threading.Thread(target=reader, daemon=True).start()
        threading.Thread(target=drain_err, daemon=True).start()
        hung = False
        while True:
            try:
                ln = lines.get(timeout=idle_timeout)
            except queue.Empty:
                hung = True
                proc.kill()
                break
            if ln is None:
                break
            if ln.startswith("BEGIN "):
                current = int(ln.split()[1])
            elif ln.startswith("RESULT "):
                _, i, js = ln.split(" ", 2)
                results[int(i)] = json.loads(js)
                current = None
        proc.wait()
        if hung and current is not None:
            results[current] = {"status": "hang", "detail": "no progress for %.0fs" % idle_timeout}
            skip = current + 1
            crashes += 1
        elif current is not None:
            results[current] = {"status": "abort", "detail": "harness child died, rc=%s" % proc.returncode}
            skip = current + 1
            crashes += 1
        elif hung:
            raise ToolError("harness hung outside a case")
        elif proc.returncode != 0:
            # died between two cases: typically the allocator detecting heap corruption caused by the
            # case that just finished
            done = [i for i in results if i >= skip]
            if proc.returncode > 0 or not done:
                raise ToolError("harness failed outside a case rc=%s" % proc.returncode)
            last = max(done)
            prev = results[last]
            results[last] = {"status": "abort", "steps": prev.get("steps", 0),
                             "detail": "harness child died (rc=%s) right after this case finished with %s"
                                       % (proc.returncode, json.dumps(prev)[:300])}
            skip = last + 1
            crashes += 1
        else:
            break
    return [results.get(i, {"status": "missing"}) for i in range(n_cases)]


# ----------------------------------------------------------------------------- bookkeeping


def digest(obj):
    return hashlib.sha1(json.dumps(obj, sort_keys=True).encode()).hexdigest()[:12]


class Run:
    def __init__(self, pid, tier, seed):
        self.pid, self.tier, self.seed = pid, tier, seed
        self.t0 = time.time()
        self.viol = []          # dicts: kind, site, detail, case
        self.states = 0
        self.transitions = 0
        self.traces = 0
        self.evaluations = 0
        self.distinct = set()
        self.samples = []
        self.notes = {}
        self.assumptions = []
        self.thin = []          # corpus-sufficiency complaints, see thin_corpus()
        os.makedirs(EVID, exist_ok=True)
        os.makedirs(REPLAYS, exist_ok=True)
        for old in os.listdir(REPLAYS):
            if old.startswith(pid + "-"):
                os.remove(os.path.join(REPLAYS, old))

    def add_tlc(self, r):
        self.states += r["distinct"]
        self.transitions += r["generated"]

    def violation(self, kind, site, detail, case=None):
        self.viol.append(dict(kind=kind, site=site, detail=detail, case=case))

    def thin_corpus(self, msg):
        """The recorded corpus exercises the property less than the check demands.  Because the amount of exercise depends
        on the implementation (a defect can suppress collections, calls, ...), this is only a tool error when the run found
        no violation; otherwise the violations are what is reported."""
        self.thin.append(msg)

    def sample(self, s, limit=4):
        if len(self.samples) < limit:
            self.samples.append(s)

    def finish(self, level, rule, explanation=None, extra=None):
        kf = []
        p = os.path.join(ROOT, "known_findings.json")
        if os.path.exists(p):
            kf = [k for k in json.load(open(p)) if k.get("property") == self.pid and k.get("status") == "finding"]
        unknown, known_hit = [], {}
        for v in self.viol:
            hit = None
            for k in kf:
                m = k.get("match", {})
                if all(_match_field(v, f, val) for f, val in m.items()):
                    hit = k
                    break
            if hit:
                known_hit.setdefault(hit["id"], [hit, 0])
                known_hit[hit["id"]][1] += 1
            else:
                unknown.append(v)
        for kid, (k, n) in sorted(known_hit.items()):
            print("KNOWN-FINDING: property=%s %s [%s, %d occurrence(s) this run]" % (self.pid, k["what"], kid, n))
        replay_paths = []
        per_key = {}
        for v in unknown:
            key = (v["kind"], v["site"])
            per_key[key] = per_key.get(key, 0) + 1
            if per_key[key] > 2 or len(replay_paths) >= 16:
                continue
            path = os.path.join(REPLAYS, "%s-%s-%s.json" % (self.pid, re.sub(r"[^A-Za-z0-9]+", "_", v["kind"] + "_" + str(v["site"]))[:60], digest(v)))
            json.dump(v, open(path, "w"), indent=1, sort_keys=True, default=str)
            replay_paths.append(path)
            print("VIOLATION property=%s replay=%s" % (self.pid, path))
            print("  kind=%s site=%s detail=%s" % (v["kind"], v["site"], json.dumps(v["detail"], default=str)[:400]))
        for key, n in sorted(per_key.items()):
            print("  violation class kind=%s site=%s: %d occurrence(s)" % (key[0], key[1], n))
        cov = dict(states=max(self.states, 0), transitions=max(self.transitions, 0),
                   traces_validated_against_impl=self.traces,
                   evaluations=self.evaluations, distinct_nontrivial=len(self.distinct),
                   rule=rule, samples=self.samples[:6] or ["(none)"])
        if explanation:
            cov["explanation"] = explanation
        cov.update(self.notes)
        if extra:
            cov.update(extra)
        ev = dict(property_id=self.pid, tier=self.tier, seed=self.seed, level=level, coverage=cov,
                  assumptions=self.assumptions, wall_s=round(time.time() - self.t0, 2),
                  violations=len(unknown),
                  known_findings_hit={k: n for k, (_, n) in known_hit.items()})
        json.dump(ev, open(os.path.join(EVID, self.pid + ".json"), "w"), indent=1, default=str)
        print("%s tier=%s seed=%d states=%d transitions=%d traces=%d evaluations=%d distinct=%d violations=%d known=%d wall=%.1fs"
              % (self.pid, self.tier, self.seed, self.states, self.transitions, self.traces, self.evaluations,
                 len(self.distinct), len(unknown), sum(n for _, n in known_hit.values()), time.time() - self.t0))
        if not unknown and self.thin:
            raise ToolError("; ".join(self.thin))
        return 1 if unknown else 0


def _match_field(v, f, val):
    cur = v
    for part in f.split("."):
        if isinstance(cur, dict) and part in cur:
            cur = cur[part]
        else:
            return False
    if isinstance(val, str) and val.startswith("re:"):
        return re.search(val[3:], str(cur)) is not None
    return cur == val
