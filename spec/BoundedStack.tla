----------------------------- MODULE BoundedStack -----------------------------
(***************************************************************************)
(* Abstract model of cao_lang::collections::bounded_stack::BoundedStack<T> *)
(* (property C14, second half).  Elements are identified by the order in   *)
(* which the caller created them (1, 2, ...); `drops[id]` counts how many  *)
(* times element id has been dropped, by anyone.                           *)
(***************************************************************************)
EXTENDS Naturals, Sequences, FiniteSets

CONSTANTS Caps, MaxElems

Ret(ok, vs) == [ok |-> ok, vs |-> vs]
Out(r, s)   == [ret |-> r, st |-> s]
Op(name)    == [op |-> name, i |-> 0, v |-> "nil"]

New(cap) == [cap |-> cap, s |-> <<>>, drops |-> <<>>, alive |-> TRUE]

Front(s) == SubSeq(s, 1, Len(s) - 1)
DropAll(st) == [id \in 1..Len(st.drops) |->
                  IF \E k \in 1..Len(st.s) : st.s[k] = id THEN st.drops[id] + 1 ELSE st.drops[id]]

Step(st, o) ==
  LET s == st.s  n == Len(st.s)  id == Len(st.drops) + 1 IN
  CASE o.op = "push" ->
         IF n < st.cap
         THEN {Out(Ret(TRUE, <<>>), [st EXCEPT !.s = Append(s, id), !.drops = Append(st.drops, 0)])}
         \* a rejected element is consumed by the call and therefore dropped, once
         ELSE {Out(Ret(FALSE, <<>>), [st EXCEPT !.drops = Append(st.drops, 1)])}
    [] o.op = "pop" ->
         IF n = 0 THEN {Out(Ret(FALSE, <<>>), st)}
         \* the caller receives the element and (in the harness) drops it at once
         ELSE {Out(Ret(TRUE, <<s[n]>>), [st EXCEPT !.s = Front(s), !.drops[s[n]] = @ + 1])}
    [] o.op \in {"last", "last_mut"} ->
         IF n = 0 THEN {Out(Ret(FALSE, <<>>), st)} ELSE {Out(Ret(TRUE, <<s[n]>>), st)}
    [] o.op = "clear" -> {Out(Ret(TRUE, <<>>), [st EXCEPT !.s = <<>>, !.drops = DropAll(st)])}
    [] o.op = "drop" -> {Out(Ret(TRUE, <<>>), [st EXCEPT !.s = <<>>, !.drops = DropAll(st), !.alive = FALSE])}

GenOps(st) ==
  IF ~st.alive THEN {}
  ELSE {Op("pop"), Op("last"), Op("last_mut"), Op("clear"), Op("drop")}
       \cup (IF Len(st.drops) < MaxElems THEN {Op("push")} ELSE {})

Proj(st) == [s |-> st.s, drops |-> st.drops]

VARIABLE st
vars == <<st>>
Init == st \in {New(c) : c \in Caps}
Next == \E o \in GenOps(st) : \E out \in Step(st, o) : st' = out.st
Spec == Init /\ [][Next]_vars

\* ---- properties ------------------------------------------------------------
Bounded == Len(st.s) <= st.cap
InStack(id) == \E k \in 1..Len(st.s) : st.s[k] = id
\* every element ever created is either still held (never dropped) or gone (dropped exactly once)
DropOnce == \A id \in 1..Len(st.drops) :
               IF InStack(id) THEN st.drops[id] = 0 ELSE st.drops[id] = 1
NoDuplicates == \A i, j \in 1..Len(st.s) : i # j => st.s[i] # st.s[j]
PushSucceedsWithRoom == (st.alive /\ Len(st.s) < st.cap) =>
                           \A out \in Step(st, Op("push")) : out.ret.ok
Lifo == st.alive => \A out \in Step(st, Op("push")) :
          out.ret.ok => \A p \in Step(out.st, Op("pop")) : p.ret.vs = <<Len(st.drops) + 1>> /\ p.st.s = st.s
=============================================================================
