CONSTANTS
  Caps = {0, 1, 2, 3}
  MaxElems = 5
  SimDepth = 0
SPECIFICATION GSpec
VIEW View
INVARIANT Emit
CHECK_DEADLOCK FALSE
