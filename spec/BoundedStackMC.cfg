CONSTANTS
  Caps = {0, 1, 2, 3}
  MaxElems = 5
SPECIFICATION Spec
INVARIANTS Bounded DropOnce NoDuplicates PushSucceedsWithRoom Lifo
CHECK_DEADLOCK FALSE
