CONSTANTS
  Caps = {1}
  MaxElems = 1000000
SPECIFICATION TSpec
INVARIANTS Done Inv
CHECK_DEADLOCK FALSE
