------------------------------ MODULE BytecodeWF ------------------------------
(***************************************************************************)
(* Structural validity of compiled programs (property C10).                *)
(*                                                                         *)
(* A decoder state machine walks the bytecode front to back with its own   *)
(* opcode / operand-width table (the interpreter decodes without bounds or *)
(* validity checks, so these are the conditions under which it is memory   *)
(* safe).  One TLC state per decoded instruction; when the walk is over    *)
(* the whole-program conditions are evaluated.  Every violated condition   *)
(* is reported with the offset it was found at.                            *)
(*                                                                         *)
(* Input (environment variable TRACE): one record per compiled program     *)
(*   bc, data      byte sequences                                          *)
(*   labels        <<[h |-> 4 handle bytes, pos |-> offset]>>              *)
(*   vars          <<[id, name_ok, back]>>: for every id in variables.ids  *)
(*                 whether variables.names has its name and which id that  *)
(*                 name maps back to                                       *)
(*   nids, nnames  sizes of the two variable tables                        *)
(*   trace         the keys of the source-trace map                        *)
(***************************************************************************)
EXTENDS Integers, Sequences, FiniteSets, Json, IOUtils, TLC

Rec == ndJsonDeserialize(IOEnv.TRACE)
N == Len(Rec)

Ops == <<"Add", "Sub", "Mul", "Div", "CallNative", "ScalarInt", "ScalarFloat", "ScalarNil", "StringLiteral", "CopyLast", "Exit",
         "CallFunction", "Equals", "NotEquals", "Less", "LessOrEq", "Pop", "SetGlobalVar", "ReadGlobalVar", "SetLocalVar",
         "ReadLocalVar", "ClearStack", "Return", "SwapLast", "And", "Or", "Xor", "Not", "Goto", "GotoIfTrue", "GotoIfFalse",
         "InitTable", "GetProperty", "SetProperty", "Len", "BeginForEach", "ForEach", "FunctionPointer", "NativeFunctionPointer",
         "NthRow", "AppendTable", "PopTable", "Closure", "SetUpvalue", "ReadUpvalue", "RegisterUpvalue", "CloseUpvalue">>
Known(b) == b + 1 <= Len(Ops)
Name(b) == Ops[b + 1]
\* number of operand bytes following the opcode
Width(op) == CASE op \in {"CallNative", "StringLiteral", "NativeFunctionPointer", "SetGlobalVar", "ReadGlobalVar", "SetLocalVar",
                          "ReadLocalVar", "SetUpvalue", "ReadUpvalue", "Goto", "GotoIfTrue", "GotoIfFalse"} -> 4
               [] op \in {"ScalarInt", "ScalarFloat", "FunctionPointer", "Closure"} -> 8
               [] op \in {"BeginForEach", "ForEach"} -> 20
               [] op = "RegisterUpvalue" -> 2
               [] OTHER -> 0
\* instructions that can raise an error and therefore need a source-trace entry
Infallible == {"Exit", "Goto", "GotoIfTrue", "GotoIfFalse", "SwapLast", "Pop", "ClearStack"}
MaxLocals == 255

\* little-endian u32 at 0-based offset o of byte sequence s; -1 when it does not fit TLC's integers
U32(s, o) == IF s[o + 4] >= 64 THEN -1 ELSE s[o + 1] + 256 * s[o + 2] + 65536 * s[o + 3] + 16777216 * s[o + 4]
Handle(s, o) == <<s[o + 1], s[o + 2], s[o + 3], s[o + 4]>>

\* a complete, valid UTF-8, length-prefixed string at offset h of the data section
RECURSIVE Utf8(_, _, _)
Utf8(d, i, end) ==   \* bytes d[i+1 .. end] are well-formed UTF-8
  IF i = end THEN TRUE
  ELSE LET b == d[i + 1]
           n == IF b < 128 THEN 1 ELSE IF b >= 194 /\ b < 224 THEN 2 ELSE IF b >= 224 /\ b < 240 THEN 3 ELSE IF b >= 240 /\ b < 245 THEN 4 ELSE 0 IN
       /\ n > 0 /\ i + n <= end
       /\ \A q \in 2..n : d[i + q] >= 128 /\ d[i + q] < 192
       /\ Utf8(d, i + n, end)
StringOK(d, h) == /\ h >= 0 /\ h + 4 <= Len(d)
                  /\ U32(d, h) >= 0 /\ h + 4 + U32(d, h) <= Len(d)
                  /\ Utf8(d, h + 4, h + 4 + U32(d, h))

\* ---- the data section is a sequence of length-prefixed strings; a string operand addresses the start of one -----
RECURSIVE DataEntries(_, _)
DataEntries(d, o) ==     \* entry starts from offset o on; -1 marks a tail that is not a complete entry
  IF o = Len(d) THEN {}
  ELSE IF o + 4 > Len(d) \/ U32(d, o) < 0 \/ o + 4 + U32(d, o) > Len(d) THEN {-1}
  ELSE {o} \cup DataEntries(d, o + 4 + U32(d, o))

VARIABLES pi, pos, starts, jumps, bad, lastop,
          clos,     \* Closure instructions seen: [at, h (label handle)]
          regs,     \* RegisterUpvalue instructions: [at, clo (the Closure instruction they complete), idx, loc]
          uses,     \* ReadUpvalue / SetUpvalue: [at, idx]
          lastclo   \* position of the last Closure instruction
vars == <<pi, pos, starts, jumps, bad, lastop, clos, regs, uses, lastclo>>

P == Rec[pi]
Problem(kind, at) == [kind |-> kind, at |-> at]

\* conditions on the instruction at `pos` (its operands are complete)
Local(op, bc, o) ==
  LET u == U32(bc, o + 1) IN
  CASE op \in {"SetLocalVar", "ReadLocalVar", "SetUpvalue", "ReadUpvalue"} ->
         IF u < 0 \/ u >= MaxLocals THEN {Problem("local-or-upvalue-index-out-of-range", o)} ELSE {}
    [] op \in {"SetGlobalVar", "ReadGlobalVar"} ->
         IF u < 0 \/ u >= P.nids THEN {Problem("global-index-out-of-range", o)} ELSE {}
    [] op \in {"StringLiteral", "NativeFunctionPointer"} ->
         (IF StringOK(P.data, u) THEN {} ELSE {Problem("string-operand-not-a-valid-string", o)})
         \* where the whole data section reads as a sequence of strings, the operand is the start of one of them
         \cup (IF -1 \in DataEntries(P.data, 0) \/ u \in DataEntries(P.data, 0) THEN {}
               ELSE {Problem("string-operand-not-at-the-start-of-a-data-entry", o)})
    [] op \in {"FunctionPointer", "Closure"} ->
         IF \E j \in 1..Len(P.labels) : P.labels[j].h = Handle(bc, o + 1) THEN {} ELSE {Problem("function-label-missing", o)}
    [] op \in {"BeginForEach", "ForEach"} ->
         IF \E q \in 0..4 : U32(bc, o + 1 + 4 * q) < 0 \/ U32(bc, o + 1 + 4 * q) >= MaxLocals
         THEN {Problem("local-or-upvalue-index-out-of-range", o)} ELSE {}
    [] op = "RegisterUpvalue" -> (IF bc[o + 3] > 1 THEN {Problem("register-upvalue-flag", o)} ELSE {})
    [] OTHER -> {}

Init == pi = 1 /\ pos = 0 /\ starts = {} /\ jumps = {} /\ bad = {} /\ lastop = "" /\ clos = {} /\ regs = {} /\ uses = {} /\ lastclo = -1

\* ---- upvalue indices against what the compiler declared ---------------------------------------------
\* A closure is emitted as  Goto end; <body at its label> ... ; end: Closure label arity; (CopyLast RegisterUpvalue idx loc)*
\* so its body is [label position, position of the Closure instruction) and it declares as many upvalues as
\* RegisterUpvalue instructions complete it.  ReadUpvalue / SetUpvalue and a pass-through RegisterUpvalue (loc = 0)
\* address the upvalues of the innermost closure whose body contains them.
LabelPos(hd) == IF \E j \in 1..Len(P.labels) : P.labels[j].h = hd
                THEN P.labels[CHOOSE j \in 1..Len(P.labels) : P.labels[j].h = hd].pos ELSE -1
Body(c) == [from |-> LabelPos(c.h), to |-> c.at]
Encl(p) == {c \in clos : Body(c).from >= 0 /\ Body(c).from <= p /\ p < Body(c).to}
Innermost(p) == CHOOSE c \in Encl(p) : \A d \in Encl(p) : Body(d).from <= Body(c).from
Declared(c) == Cardinality({r \in regs : r.clo = c.at})
UpvalueProblems ==
  {Problem("upvalue-index-not-declared-by-the-enclosing-closure", u.at) :
     u \in {u \in uses \cup {[at |-> r.at, idx |-> r.idx] : r \in {r \in regs : r.loc = 0}} :
              \* (outside every recognised closure body the emission pattern is not the one described above: no verdict)
              Encl(u.at) # {} /\ u.idx >= Declared(Innermost(u.at))}}
\* whole-program conditions, evaluated when the walk has reached the end
Final ==
  LET bc == P.bc IN
     {Problem("jump-target-not-an-instruction-start", j.at) : j \in {j \in jumps : j.to \notin starts}}
  \cup {Problem("label-not-an-instruction-start", P.labels[j].pos) : j \in {j \in 1..Len(P.labels) : P.labels[j].pos \notin starts}}
  \cup {Problem("trace-key-not-an-instruction-start", k) : k \in {P.trace[j] : j \in 1..Len(P.trace)} \ starts}
  \cup {Problem("fallible-instruction-without-trace", s) : s \in {s \in starts : Name(bc[s + 1]) \notin Infallible} \ {P.trace[j] : j \in 1..Len(P.trace)}}
  \cup UpvalueProblems
  \cup (IF lastop = "Exit" THEN {} ELSE {Problem("does-not-end-with-exit", Len(bc))})
  \cup (IF P.nids = P.nnames THEN {} ELSE {Problem("variable-tables-differ-in-size", 0)})
  \cup {Problem("variable-id-without-name-or-wrong-back-reference", P.vars[j].id) :
          j \in {j \in 1..Len(P.vars) : ~P.vars[j].name_ok \/ P.vars[j].back # P.vars[j].id}}
  \cup (IF {P.vars[j].id : j \in 1..Len(P.vars)} = 0..(P.nids - 1) THEN {} ELSE {Problem("variable-ids-not-dense", 0)})

Verdict(problems) ==
  IF problems = {} THEN PrintT(<<"VERDICT", ToJson([id |-> P.id, ok |-> TRUE, instructions |-> Cardinality(starts)])>>)
  ELSE PrintT(<<"MISMATCH", ToJson([id |-> P.id, problems |-> problems])>>)

NextProgram(problems) ==
  /\ Verdict(problems)
  /\ pi' = pi + 1 /\ pos' = 0 /\ starts' = {} /\ jumps' = {} /\ bad' = {} /\ lastop' = ""
  /\ clos' = {} /\ regs' = {} /\ uses' = {} /\ lastclo' = -1

Next ==
  /\ pi <= N
  /\ LET bc == P.bc IN
     IF pos >= Len(bc) THEN NextProgram(bad \cup Final)
     ELSE LET b == bc[pos + 1] IN
          IF ~Known(b) THEN NextProgram(bad \cup {Problem("unknown-opcode", pos)})
          ELSE LET op == Name(b)  w == Width(op) IN
               IF pos + 1 + w > Len(bc) THEN NextProgram(bad \cup {Problem("incomplete-operands", pos)})
               ELSE /\ pi' = pi
                    /\ pos' = pos + 1 + w
                    /\ starts' = starts \cup {pos}
                    /\ lastop' = op
                    /\ jumps' = IF op \in {"Goto", "GotoIfTrue", "GotoIfFalse"} THEN jumps \cup {[at |-> pos, to |-> U32(bc, pos + 1)]} ELSE jumps
                    /\ bad' = bad \cup Local(op, bc, pos)
                    /\ clos' = IF op = "Closure" THEN clos \cup {[at |-> pos, h |-> Handle(bc, pos + 1)]} ELSE clos
                    /\ lastclo' = IF op = "Closure" THEN pos ELSE lastclo
                    /\ regs' = IF op = "RegisterUpvalue" THEN regs \cup {[at |-> pos, clo |-> lastclo, idx |-> bc[pos + 2], loc |-> bc[pos + 3]]} ELSE regs
                    /\ uses' = IF op \in {"ReadUpvalue", "SetUpvalue"} THEN uses \cup {[at |-> pos, idx |-> U32(bc, pos + 1)]} ELSE uses
Spec == Init /\ [][Next]_vars
AllDone == (pi = N + 1) => PrintT(<<"TRACE-DONE", N>>)
\* the decoder never runs past the end of the program
InBounds == pi > N \/ pos <= Len(P.bc)
=============================================================================
