------------------------------ MODULE CaoValues ------------------------------
(***************************************************************************)
(* Runtime values of Cao-Lang as the specifications see them, and the      *)
(* operators on them (coercions, arithmetic, comparison, truthiness).      *)
(*                                                                         *)
(* A value is a record [t, i, e, s]:                                       *)
(*   nil  : t = "nil"                                                      *)
(*   int  : t = "int",  i = the integer (|i| < Lim)                        *)
(*   real : t = "real", the dyadic rational i * 2^(-e), normalised (i odd  *)
(*          or e = 0); s # "" marks a token: "nan" "inf" "-inf" "inexact"  *)
(*   str  : t = "str",  s = text, i = length in bytes                      *)
(*   ref  : t = "ref",  i = table id (tables have identity, are mutable)   *)
(*   fn   : t = "fn",   s = full function name                             *)
(*   nat  : t = "nat",  s = native function name                           *)
(*   clo  : t = "clo",  i = closure id                                     *)
(* An operator that leaves the specified fragment (integer beyond Lim,     *)
(* use of a token real, a comparison the properties leave open) returns    *)
(* the pseudo value Unspec; the machine then ends with outcome "unspec".   *)
(***************************************************************************)
EXTENDS Integers, Sequences, FiniteSets

Lim == 268435456      \* 2^28: integers stay far below TLC's 32-bit limit

Val(t, i, e, s) == [t |-> t, i |-> i, e |-> e, s |-> s]
VNil == Val("nil", 0, 0, "")
VInt(n) == Val("int", n, 0, "")
VStr(x, n) == Val("str", n, 0, x)
VRef(id) == Val("ref", id, 0, "")
VFn(name) == Val("fn", 0, 0, name)
VNat(name) == Val("nat", 0, 0, name)
VClo(id) == Val("clo", id, 0, "")
VTok(tok) == Val("real", 0, 0, tok)
Unspec == Val("unspec", 0, 0, "")
VBool(b) == VInt(IF b THEN 1 ELSE 0)

IsUnspec(v) == v.t = "unspec"
IsTok(v) == v.t = "real" /\ v.s # ""
\* the token "sm" with i = k # 0 stands for the real k * 2^-60 (|k| < 2^20): closer to zero, and to each other, than any tolerance,
\* but distinct numbers all the same.  Equality, ordering and truthiness are specified for them; arithmetic is not
VSm(k) == Val("real", k, 0, "sm")
IsSm(v) == v.t = "real" /\ v.s = "sm"
IsObj(v) == v.t \in {"str", "ref", "fn", "nat", "clo"}

RECURSIVE Pow2(_)
Pow2(n) == IF n = 0 THEN 1 ELSE 2 * Pow2(n - 1)
RECURSIVE Norm(_, _)
Norm(n, e) == IF e > 0 /\ n % 2 = 0 THEN Norm(n \div 2, e - 1) ELSE <<n, e>>
Abs(n) == IF n < 0 THEN -n ELSE n
RECURSIVE Lg(_)
Lg(n) == IF n <= 1 THEN 0 ELSE 1 + Lg(n \div 2)
IsPow2(n) == n >= 1 /\ Pow2(Lg(n)) = n
\* dyadic real n * 2^-e; out of the modelled range -> Unspec
VReal(n, e) == LET p == Norm(n, e) IN
               IF Abs(p[1]) >= Lim \/ p[2] > 20 THEN Unspec ELSE Val("real", p[1], p[2], "")

\* ---- coercions used by arithmetic and ordering ("try_cast_match") ------------------
\* length of a value as the interpreter counts it: strings in bytes, tables in entries
\* (TabLen is supplied by the caller because tables live in the heap), other objects 0
NumOf(v, tablen) == CASE v.t = "nil" -> 0 [] v.t = "int" -> v.i [] v.t = "str" -> v.i
                      [] v.t = "ref" -> tablen [] OTHER -> 0
\* both operands as dyadics <<n, e>> with a common exponent
AsDy(v, tablen) == IF v.t = "real" THEN <<v.i, v.e>> ELSE <<NumOf(v, tablen), 0>>
Common(a, b) == LET e == IF a[2] > b[2] THEN a[2] ELSE b[2] IN
                <<a[1] * Pow2(e - a[2]), b[1] * Pow2(e - b[2]), e>>

IntRes(n) == IF Abs(n) >= Lim THEN Unspec ELSE VInt(n)

\* integers around 2^53 (TLC's integers are 32 bits wide): VBig(k) stands for 2^53 + k, e = 53 marks it.  Only equality,
\* ordering and truthiness are specified for them
VBig(k) == Val("int", k, 53, "")
IsBig(v) == v.t = "int" /\ v.e = 53
\* Arith(op, a, b, la, lb): la / lb are the table lengths of a / b when they are tables
Arith(op, a, b, la, lb) ==
  IF IsUnspec(a) \/ IsUnspec(b) \/ IsTok(a) \/ IsTok(b) \/ IsBig(a) \/ IsBig(b) THEN Unspec
  ELSE IF a.t = "real" \/ b.t = "real" \/ (op = "Div" /\ (a.t = "int" \/ b.t = "int")) THEN
    LET c == Common(AsDy(a, la), AsDy(b, lb)) IN
    IF Abs(c[1]) >= Lim \/ Abs(c[2]) >= Lim THEN Unspec
    ELSE CASE op = "Add" -> VReal(c[1] + c[2], c[3])
           [] op = "Sub" -> VReal(c[1] - c[2], c[3])
           [] op = "Mul" -> IF Abs(c[1]) >= 16384 \/ Abs(c[2]) >= 16384 THEN Unspec
                            ELSE VReal(c[1] * c[2], 2 * c[3])
           [] op = "Div" ->
                IF c[2] = 0 THEN (IF c[1] > 0 THEN VTok("inf") ELSE IF c[1] < 0 THEN VTok("-inf") ELSE VTok("nan"))
                ELSE LET y == Abs(c[2])  x == IF c[2] < 0 THEN -c[1] ELSE c[1] IN
                     IF x % y = 0 THEN VReal(x \div y, 0)
                     \* x / y is a dyadic rational iff y is a power of two (the common exponent cancels)
                     ELSE IF IsPow2(y) THEN VReal(x, Lg(y))
                     ELSE VTok("inexact")
  ELSE IF a.t = "int" \/ b.t = "int" THEN
    LET x == NumOf(a, la)  y == NumOf(b, lb) IN
    CASE op = "Add" -> IntRes(x + y)
      [] op = "Sub" -> IntRes(x - y)
      [] op = "Mul" -> IF Abs(x) >= 16384 \/ Abs(y) >= 16384 THEN Unspec ELSE IntRes(x * y)
  ELSE VNil     \* no number involved: the result is nil

\* ---- ordering of two values when at least one is a number, or both are numbers after
\* coercion; result "LT" / "EQ" / "GT"
\* sign of an ordinary (not small, not big) number
SgnOf(v, tablen) == LET n == AsDy(v, tablen)[1] IN IF n > 0 THEN 1 ELSE IF n < 0 THEN -1 ELSE 0
NumCmp(a, b, la, lb) ==
  IF IsSm(a) /\ IsSm(b) THEN (IF a.i < b.i THEN "LT" ELSE IF a.i > b.i THEN "GT" ELSE "EQ")
  ELSE IF IsSm(a) THEN (IF IsBig(b) \/ SgnOf(b, lb) > 0 THEN "LT" ELSE IF SgnOf(b, lb) < 0 THEN "GT" ELSE IF a.i > 0 THEN "GT" ELSE "LT")
  ELSE IF IsSm(b) THEN (IF IsBig(a) \/ SgnOf(a, la) > 0 THEN "GT" ELSE IF SgnOf(a, la) < 0 THEN "LT" ELSE IF b.i > 0 THEN "LT" ELSE "GT")
  ELSE IF IsBig(a) /\ IsBig(b) THEN (IF a.i < b.i THEN "LT" ELSE IF a.i > b.i THEN "GT" ELSE "EQ")
  ELSE IF IsBig(a) THEN "GT"         \* larger than every other modelled number, length and nil
  ELSE IF IsBig(b) THEN "LT"
  ELSE LET c == Common(AsDy(a, la), AsDy(b, lb)) IN
       IF c[1] < c[2] THEN "LT" ELSE IF c[1] > c[2] THEN "GT" ELSE "EQ"

\* truthiness; tables need their length
Truthy(v, tablen) ==
  CASE v.t = "nil" -> FALSE
    [] v.t = "int" -> v.i # 0 \/ v.e # 0
    [] v.t = "real" -> v.i # 0          \* tokens are filtered by the caller
    [] v.t = "str" -> v.i # 0
    [] v.t = "ref" -> tablen # 0
    [] OTHER -> TRUE
=============================================================================
