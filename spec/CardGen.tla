------------------------------- MODULE CardGen -------------------------------
(***************************************************************************)
(* TLC as a program generator: bounded grammars enumerated completely.     *)
(* Each behaviour has one state; the invariant prints the chosen program   *)
(* as JSON (the same encoding CardSem reads).  The programs are compiled   *)
(* and run by the harness and then judged by CardSemCheck like any other.  *)
(*                                                                         *)
(* Shard "ops":   $r := op(A, B) for every binary operator card and every  *)
(*                pair of operand atoms of every value kind (the complete  *)
(*                coercion table), and every unary operator on every atom. *)
(* Shard "ctl":   every nesting (depth <= 2) of if / repeat / while /      *)
(*                for-each / early-return around effect leaves, in main    *)
(*                and in a callee whose frame sits above other locals.     *)
(***************************************************************************)
EXTENDS Integers, Sequences, FiniteSets, Json, TLC

CONSTANT Shard

Nm(x, n) == [s |-> x, i |-> n]
C(k, c, i, e, s, nm) == [k |-> k, c |-> c, i |-> i, e |-> e, s |-> s, nm |-> nm]
IntC(n) == C("ScalarInt", <<>>, n, 0, "", <<>>)
Big(k) == C("ScalarInt", <<>>, k, 0, "big", <<>>)       \* 2^53 + k
RealC(n, e) == C("ScalarFloat", <<>>, n, e, "", <<>>)
Sm(k) == C("ScalarFloat", <<>>, k, 0, "sm", <<>>)          \* k * 2^-60
Str(x, n) == C("StringLiteral", <<>>, n, 0, x, <<>>)
NilC == C("ScalarNil", <<>>, 0, 0, "", <<>>)
Rd(x, n) == C("ReadVar", <<>>, 0, 0, "", <<Nm(x, n)>>)
SetV(x, n, v) == C("SetVar", <<v>>, 0, 0, "", <<Nm(x, n)>>)
SetG(x, n, v) == C("SetGlobalVar", <<v>>, 0, 0, "", <<Nm(x, n)>>)
Op2(k, a, b) == C(k, <<a, b>>, 0, 0, "", <<>>)
Op1(k, a) == C(k, <<a>>, 0, 0, "", <<>>)
Blk(cs) == C("CompositeCard", cs, 0, 0, "", <<>>)
CallC(f, args) == C("Call", args, 0, 0, f, <<>>)
Log1(a) == C("CallNative", <<a>>, 0, 0, "log1", <<>>)
Fn(name, params, body, fi) == [name |-> name, params |-> params, body |-> body, fi |-> fi, ns |-> <<>>]
Natives == << [name |-> "log1", arity |-> 1, beh |-> "log"] >>

\* ---- shard "ops" ------------------------------------------------------------------
\* tables and function values need a statement-level prologue; operands then read the variables
Prologue == << SetV("t0", 2, C("CreateTable", <<>>, 0, 0, "", <<>>)),
               SetV("t2", 2, C("Array", <<IntC(5), IntC(6)>>, 0, 0, "", <<>>)),
               \* as long as t2 with other content / with the same content (another object)
               SetV("t3", 2, C("Array", <<IntC(5), IntC(7)>>, 0, 0, "", <<>>)),
               SetV("t4", 2, C("Array", <<IntC(5), IntC(6)>>, 0, 0, "", <<>>)),
               SetV("fv", 2, C("Function", <<>>, 0, 0, "f", <<>>)) >>
Atoms == << NilC, IntC(0), IntC(1), IntC(-1), IntC(2), IntC(7), RealC(1, 1), RealC(-3, 1), RealC(2, 0), RealC(0, 0),
            Str("", 0), Str("a", 1), Str("b", 1), Str("ab", 2), Rd("t0", 2), Rd("t2", 2), Rd("t3", 2), Rd("t4", 2), Rd("fv", 2) >>
BinOps == {"Add", "Sub", "Mul", "Div", "Less", "LessOrEq", "Equals", "NotEquals", "And", "Or", "Xor"}
UnOps == {"Not", "Len"}
OpsPrograms ==
     {[fns |-> << Fn("main", <<>>, Prologue \o << SetG("r", 1, Op2(op, Atoms[a], Atoms[b])) >>, 0),
                  Fn("f", <<>>, << Op1("Return", IntC(1)) >>, 1) >>, natives |-> Natives]
        : op \in BinOps, a \in 1..Len(Atoms), b \in 1..Len(Atoms)}
\cup {[fns |-> << Fn("main", <<>>, Prologue \o << SetG("r", 1, Op1(op, Atoms[a])) >>, 0),
                  Fn("f", <<>>, << Op1("Return", IntC(1)) >>, 1) >>, natives |-> Natives]
        : op \in UnOps, a \in 1..Len(Atoms)}

\* ---- shard "ctl" ------------------------------------------------------------------
\* effect leaves: log the loop variables / a counter so that order and multiplicity are observable
Leaves == { Log1(Rd("x", 1)), SetV("x", 1, Op2("Add", Rd("x", 1), IntC(1))), Op1("Return", Rd("x", 1)) }
Conds == { IntC(0), IntC(1), Op2("Less", Rd("x", 1), IntC(2)) }
Wrap(body) ==
     { C("IfTrue", <<c, body>>, 0, 0, "", <<>>) : c \in Conds }
\cup { C("IfElse", <<c, body, Log1(IntC(9))>>, 0, 0, "", <<>>) : c \in Conds }
\cup { C("Repeat", <<n, Blk(<<Log1(Rd("i", 1)), body>>)>>, 0, 0, "", <<Nm("i", 1)>>) : n \in {IntC(0), IntC(2)} }
\cup { C("ForEach", <<Rd("t", 1), Blk(<<Log1(Rd("k", 1)), body>>)>>, 0, 0, "", <<Nm("", 0), Nm("k", 1), Nm("", 0)>>) }
\cup { Blk(<<SetV("w", 1, IntC(2)),
             C("While", <<Op2("Less", IntC(0), Rd("w", 1)), Blk(<<body, SetV("w", 1, Op2("Sub", Rd("w", 1), IntC(1)))>>)>>, 0, 0, "", <<>>)>>) }
Depth1 == UNION { Wrap(l) : l \in Leaves }
Depth2 == UNION { Wrap(d) : d \in Depth1 }
\* the callee g(a, b) has two parameters and two locals below the generated statement, so every
\* local slot is addressed relative to a frame that sits above the caller's locals
Callee(stmt) == Fn("g", <<"a", "b">>,
                   << SetV("x", 1, Rd("a", 1)), SetV("t", 1, C("Array", <<IntC(7), IntC(8)>>, 0, 0, "", <<>>)),
                      stmt, Log1(Rd("x", 1)), Op1("Return", Op2("Add", Rd("x", 1), Rd("b", 1))) >>, 1)
CtlPrograms ==
  { [fns |-> << Fn("main", <<>>, << SetV("p", 1, IntC(40)), SetV("q", 1, IntC(50)),
                                    SetG("r", 1, CallC("g", <<IntC(3), IntC(0)>>)),
                                    SetG("s", 1, CallC("g", <<IntC(4), IntC(1)>>)),
                                    SetG("pq", 2, Op2("Add", Rd("p", 1), Rd("q", 1))) >>, 0),
                Callee(stmt) >>, natives |-> Natives]
    : stmt \in Depth1 \cup Depth2 }

\* ---- shard "std" ------------------------------------------------------------------
\* every library function x a family of tables (sizes 0..4, ties, mixed int/real, string keys) x a
\* family of callbacks; the input table is exported again after the call (must be unmodified)
Arr(cs) == C("Array", cs, 0, 0, "", <<>>)
Clo(params, body) == C("Closure", body, 0, 0, "", params)
Ret(v) == Op1("Return", v)
TableMakers == << <<SetV("t", 1, Arr(<<>>))>>,
                  <<SetV("t", 1, Arr(<<IntC(5)>>))>>,
                  <<SetV("t", 1, Arr(<<IntC(3), IntC(1), IntC(2)>>))>>,
                  <<SetV("t", 1, Arr(<<IntC(2), IntC(2), IntC(1), IntC(2)>>))>>,
                  <<SetV("t", 1, Arr(<<IntC(1), RealC(1, 1), IntC(2), RealC(3, 1)>>))>>,
                  \* tied values under keys that are not in ascending order (ties keep their insertion order, whatever the keys)
                  <<SetV("t", 1, C("CreateTable", <<>>, 0, 0, "", <<>>)),
                    C("SetProperty", <<IntC(5), Rd("t", 1), IntC(2)>>, 0, 0, "", <<>>),
                    C("SetProperty", <<IntC(5), Rd("t", 1), IntC(0)>>, 0, 0, "", <<>>),
                    C("SetProperty", <<IntC(4), Rd("t", 1), IntC(3)>>, 0, 0, "", <<>>),
                    C("SetProperty", <<IntC(5), Rd("t", 1), IntC(1)>>, 0, 0, "", <<>>)>>,
                  \* integers that differ only beyond the precision of a 64-bit real (2^53 + 2, + 1, + 0 and the other way round)
                  <<SetV("t", 1, Arr(<<Big(2), Big(1), Big(0)>>))>>,
                  <<SetV("t", 1, Arr(<<Big(0), Big(1), Big(2), IntC(7)>>))>>,
                  \* reals that differ by less than any tolerance are different numbers all the same
                  <<SetV("t", 1, Arr(<<Sm(3), Sm(1), RealC(0, 0), Sm(2), Sm(-1)>>))>>,
                  <<SetV("t", 1, Arr(<<Sm(1), Sm(2), IntC(0), RealC(1, 1)>>))>>,
                  \* values that cannot be ordered against each other (different strings of equal length: neither is less): the
                  \* first of them stays the extremum, a stable sort keeps their order
                  <<SetV("t", 1, Arr(<<Str("aa", 2), Str("bb", 2), Str("c", 1)>>))>>,
                  <<SetV("t", 1, Arr(<<Str("x", 1), Str("pq", 2), Str("rs", 2), Str("y", 1)>>))>>,
                  \* entries whose value is nil are entries like any other
                  <<SetV("t", 1, Arr(<<IntC(4), NilC, IntC(6), NilC>>))>>,
                  <<SetV("t", 1, C("CreateTable", <<>>, 0, 0, "", <<>>)),
                    C("SetProperty", <<IntC(2), Rd("t", 1), Str("b", 1)>>, 0, 0, "", <<>>),
                    C("SetProperty", <<IntC(1), Rd("t", 1), Str("a", 1)>>, 0, 0, "", <<>>),
                    C("SetProperty", <<IntC(2), Rd("t", 1), IntC(7)>>, 0, 0, "", <<>>)>> >>
P3 == <<Nm("k", 1), Nm("v", 1), Nm("i", 1)>>
P2 == <<Nm("k", 1), Nm("v", 1)>>
Callbacks3 == { Clo(P3, <<Ret(Op2("Less", IntC(1), Rd("v", 1)))>>),
                Clo(P3, <<Ret(Rd("v", 1))>>),
                Clo(P3, <<Log1(Rd("k", 1)), Ret(Op2("Equals", Rd("i", 1), IntC(1)))>>),
                Clo(P3, <<Ret(IntC(0))>>),
                \* a callback whose result is a function value (true, like every object that is not an empty string or table)
                Clo(P3, <<Ret(Clo(<<>>, <<Ret(IntC(1))>>))>>),
                Clo(P3, <<Log1(Rd("i", 1)), Ret(Op2("Add", Rd("v", 1), Rd("i", 1)))>>) }
KeyFns == { Clo(P2, <<Ret(Rd("v", 1))>>),
            Clo(P2, <<Ret(Op2("Sub", IntC(0), Rd("v", 1)))>>),
            Clo(P2, <<Ret(IntC(0))>>),
            Clo(P2, <<Log1(Rd("k", 1)), Ret(Op2("Mul", Rd("v", 1), Rd("v", 1)))>>) }
StdMain(mk, callcard) == [fns |-> << Fn("main", <<>>, mk \o << SetG("r", 1, callcard), SetG("after", 5, Rd("t", 1)) >>, 0) >>,
                          natives |-> Natives]
NonTables == { NilC, IntC(5), IntC(0), Str("ab", 2), Str("", 0), RealC(1, 1), RealC(0, 0) }
StdPrograms ==
     { StdMain(TableMakers[j], CallC(f, <<cb, Rd("t", 1)>>)) : j \in 1..Len(TableMakers), f \in {"std.filter", "std.map", "std.any"}, cb \in Callbacks3 }
\cup { StdMain(TableMakers[j], CallC(f, <<kf, Rd("t", 1)>>)) : j \in 1..Len(TableMakers), f \in {"std.min_by_key", "std.max_by_key", "std.sorted_by_key"}, kf \in KeyFns }
\cup { StdMain(TableMakers[j], CallC(f, <<Rd("t", 1)>>)) : j \in 1..Len(TableMakers), f \in {"std.min", "std.max", "std.sorted", "std.to_array"} }
\cup { StdMain(<<SetV("t", 1, x)>>, CallC(f, <<Rd("t", 1)>>)) : x \in NonTables, f \in {"std.min", "std.max", "std.sorted", "std.to_array"} }
\cup { StdMain(<<SetV("t", 1, x)>>, CallC(f, <<kf, Rd("t", 1)>>)) : x \in NonTables, f \in {"std.min_by_key", "std.max_by_key", "std.sorted_by_key"}, kf \in {Clo(P2, <<Ret(Rd("v", 1))>>)} }

Programs == CASE Shard = "ops" -> OpsPrograms [] Shard = "ctl" -> CtlPrograms [] Shard = "std" -> StdPrograms

VARIABLE prog
Init == prog \in Programs
Next == UNCHANGED prog
Spec == Init /\ [][Next]_prog
Emit == PrintT(<<"PROGRAM", ToJson(prog)>>)
=============================================================================
