------------------------------- MODULE CardSem -------------------------------
(***************************************************************************)
(* Reference semantics of Cao-Lang card programs (properties C01, C06,     *)
(* C07-script, C09, C15, C18): a small-step abstract machine over card     *)
(* trees.  It knows nothing about bytecode, stack slots, jumps or upvalue  *)
(* objects; agreement between this machine and compile+run is evidence     *)
(* about the compiler and the VM.                                          *)
(*                                                                         *)
(* The machine is a pure function StepM on a machine record m; the state   *)
(* machine of this module is  m' = StepM(m)  for a program chosen by the   *)
(* instantiating module (operator Prog(pi)).                               *)
(*                                                                         *)
(* Program  [fns |-> <<Fn>>, natives |-> <<[name, arity, beh]>>]           *)
(* Fn       [name, params, body (cards), fi (index in its module), ns]     *)
(* Card     [k (kind), c (children in iter_children order), i, e, s, nm]   *)
(* Index    [fn (position in fns), p (path, 0-based child numbers)]        *)
(*                                                                         *)
(* Machine m:                                                              *)
(*   pi    which program                                                   *)
(*   k     continuation: stack of frames [op, ix, n, h, x, xs]             *)
(*   v     operand values of the cards being evaluated                     *)
(*   fr    call frames [sc (scopes: seq of seq of [n, c]), env, callix]    *)
(*   cells variable cells (captured by reference): seq of values           *)
(*   heap  tables: seq of seq of [k, v]   clos: closures [ix, env]         *)
(*   g     globals  name -> value         log: host calls [name, args]     *)
(*   out   [st ("run" | "ok" | "err" | "unspec"), kind, at, chain]         *)
(***************************************************************************)
EXTENDS CaoValues, TLC

CONSTANTS Prog(_),      \* Prog(pi): the program with number pi
          MaxSteps      \* guard against non-terminating reference runs

Top(s) == s[Len(s)]
Pop(s) == SubSeq(s, 1, Len(s) - 1)
Take(s, n) == SubSeq(s, 1, n)
LastN(s, n) == SubSeq(s, Len(s) - n + 1, Len(s))

Ix(f, p) == [fn |-> f, p |-> p]
Child(ix, j) == Ix(ix.fn, Append(ix.p, j))        \* j is 0-based

RECURSIVE Sub(_, _)
Sub(card, p) == IF p = <<>> THEN card ELSE Sub(card.c[Head(p) + 1], Tail(p))
FnAt(pi, ix) == Prog(pi).fns[ix.fn]
CardAt(pi, ix) == Sub(FnAt(pi, ix).body[ix.p[1] + 1], Tail(ix.p))
\* the statement list a body index designates: a named function (empty path) or a Closure card
BodyCards(pi, ix) == IF ix.p = <<>> THEN FnAt(pi, ix).body ELSE CardAt(pi, ix).c
BodyParams(pi, ix) == IF ix.p = <<>> THEN FnAt(pi, ix).params
                      ELSE [j \in 1..Len(CardAt(pi, ix).nm) |-> CardAt(pi, ix).nm[j].s]

FnIndex(pi, name) == IF \E j \in 1..Len(Prog(pi).fns) : Prog(pi).fns[j].name = name
                     THEN CHOOSE j \in 1..Len(Prog(pi).fns) : Prog(pi).fns[j].name = name ELSE 0
NatIndex(pi, name) == IF \E j \in 1..Len(Prog(pi).natives) : Prog(pi).natives[j].name = name
                      THEN CHOOSE j \in 1..Len(Prog(pi).natives) : Prog(pi).natives[j].name = name ELSE 0

Fr(op, ix, n, h) == [op |-> op, ix |-> ix, n |-> n, h |-> h, x |-> VNil, xs |-> <<>>, s |-> ""]
FrX(op, ix, n, h, x) == [op |-> op, ix |-> ix, n |-> n, h |-> h, x |-> x, xs |-> <<>>, s |-> ""]
FrS(op, ix, n, h, x, xs, name) == [op |-> op, ix |-> ix, n |-> n, h |-> h, x |-> x, xs |-> xs, s |-> name]
Eval(ix) == Fr("eval", ix, 0, 0)

NoIx == Ix(0, <<>>)
Running == [st |-> "run", kind |-> "", at |-> NoIx, chain |-> <<>>]

NativeBacked == {"std.min", "std.max", "std.sorted", "std.to_array", "std.min_by_key", "std.max_by_key", "std.sorted_by_key"}

\* ---- results of a step ------------------------------------------------------------
Finish(m) == [m EXCEPT !.k = <<>>, !.out = [Running EXCEPT !.st = "ok"]]
Unspecified(m) == [m EXCEPT !.k = <<>>, !.out = [Running EXCEPT !.st = "unspec"]]
Chain(m) == [j \in 1..(Len(m.fr) - 1) |-> m.fr[Len(m.fr) + 1 - j].callix]
\* an error raised while a host function (a native-backed library function or a re-entering host
\* function) is calling back into the script surfaces as a failure of the OUTERMOST such host task
Wrappers(m) == {j \in 1..Len(m.k) : (m.k[j].op = "std" /\ m.k[j].s \in NativeBacked) \/ m.k[j].op = "hostret"}
WrapName(f) == IF f.op = "hostret" THEN f.s
               ELSE CASE f.s \in {"std.min", "std.min_by_key"} -> "__min" [] f.s \in {"std.max", "std.max_by_key"} -> "__max"
                      [] f.s \in {"std.sorted", "std.sorted_by_key"} -> "__sort" [] OTHER -> "__to_array"
NoTask == [name |-> "", inner |-> "", params |-> {}]
Raise(m, kind, ix, task) ==
  LET w == Wrappers(m) IN
  IF w = {} THEN [m EXCEPT !.k = <<>>, !.out = [st |-> "err", kind |-> kind, at |-> ix, chain |-> Chain(m)], !.task = task]
  ELSE LET j == CHOOSE j \in w : \A q \in w : j <= q IN
       [m EXCEPT !.k = <<>>, !.out = [st |-> "err", kind |-> "TaskFailure", at |-> ix, chain |-> Chain(m)],
                 \* what the outermost task reports as its own cause: the failure of the next host task inside it, if
                 \* there is one, otherwise the error itself
                 !.task = [name |-> WrapName(m.k[j]), inner |-> IF Cardinality(w) >= 2 THEN "TaskFailure" ELSE kind, params |-> {}]]
Fail(m, kind, ix) == Raise(m, kind, ix, NoTask)
\* the top frame is finished and produced value x / no value
Yield(m, x) == IF IsUnspec(x) THEN Unspecified(m) ELSE [m EXCEPT !.k = Pop(m.k), !.v = Append(m.v, x)]
Done(m) == [m EXCEPT !.k = Pop(m.k)]
Replace(m, f) == [m EXCEPT !.k = Append(Pop(m.k), f)]
ReplacePush(m, f, g) == [m EXCEPT !.k = Append(Append(Pop(m.k), f), g)]

\* ---- tables -------------------------------------------------------------------------
TabLen(m, x) == IF x.t = "ref" THEN Len(m.heap[x.i]) ELSE 0
TIdx(tab, key) == IF \E j \in 1..Len(tab) : tab[j].k = key
                  THEN CHOOSE j \in 1..Len(tab) : tab[j].k = key ELSE 0
TGet(tab, key) == IF TIdx(tab, key) # 0 THEN tab[TIdx(tab, key)].v ELSE VNil
TSet(tab, key, val) == IF TIdx(tab, key) # 0 THEN [tab EXCEPT ![TIdx(tab, key)].v = val]
                       ELSE Append(tab, [k |-> key, v |-> val])
TAppendKey(tab) == CHOOSE n \in Len(tab)..(2 * Len(tab) + 1) :
                      /\ TIdx(tab, VInt(n)) = 0
                      /\ \A q \in Len(tab)..(n - 1) : TIdx(tab, VInt(q)) # 0
NewTable(m, tab) == [m EXCEPT !.heap = Append(m.heap, tab)]
NewRef(m) == VRef(Len(m.heap) + 1)

\* ---- equality / ordering on machine values ("T" / "F" / "U" = not specified) --------
RECURSIVE EqV(_, _, _)
OtherTok(x) == IsTok(x) /\ ~IsSm(x)
EqV(m, a, b) ==
  IF IsUnspec(a) \/ IsUnspec(b) \/ OtherTok(a) \/ OtherTok(b) THEN "U"
  ELSE IF IsSm(a) /\ IsSm(b) THEN (IF a.i = b.i THEN "T" ELSE "F")
  ELSE IF (IsSm(a) \/ IsSm(b)) /\ a.t \notin {"fn", "nat", "clo"} /\ b.t \notin {"fn", "nat", "clo"} THEN "F"
  ELSE IF a.t \in {"fn", "nat", "clo"} \/ b.t \in {"fn", "nat", "clo"} THEN "U"
  ELSE IF a.t # b.t THEN "F"
  ELSE CASE a.t = "nil" -> "T"
         [] a.t = "int" -> (IF a.i = b.i /\ a.e = b.e THEN "T" ELSE "F")
         [] a.t = "real" -> (IF a.i = b.i /\ a.e = b.e THEN "T" ELSE "F")
         [] a.t = "str" -> (IF a.s = b.s THEN "T" ELSE "F")
         [] a.t = "ref" ->
              LET ta == m.heap[a.i]  tb == m.heap[b.i] IN
              IF Len(ta) # Len(tb) THEN "F"
              ELSE LET rs == {EqV(m, ta[j].k, tb[j].k) : j \in 1..Len(ta)} \cup {EqV(m, ta[j].v, tb[j].v) : j \in 1..Len(ta)} IN
                   IF "F" \in rs
                   \* same entries in another order: not specified
                   THEN (IF \A j \in 1..Len(ta) : \E q \in 1..Len(tb) : EqV(m, ta[j].k, tb[q].k) = "T" /\ EqV(m, ta[j].v, tb[q].v) = "T"
                         THEN "U" ELSE "F")
                   ELSE IF "U" \in rs THEN "U" ELSE "T"
IsNumV(x) == x.t \in {"int", "real"}
\* op \in {"Less", "LessOrEq"}
CmpV(m, op, a, b) ==
  IF IsUnspec(a) \/ IsUnspec(b) \/ OtherTok(a) \/ OtherTok(b) THEN "U"
  ELSE IF a.t \in {"fn", "nat", "clo"} \/ b.t \in {"fn", "nat", "clo"} THEN "U"
  ELSE IF IsNumV(a) \/ IsNumV(b) THEN
       LET c == NumCmp(a, b, TabLen(m, a), TabLen(m, b)) IN
       IF c = "LT" \/ (op = "LessOrEq" /\ c = "EQ") THEN "T" ELSE "F"
  ELSE IF a.t = b.t /\ a.t \in {"str", "ref"} THEN
       LET la == IF a.t = "str" THEN a.i ELSE TabLen(m, a)
           lb == IF b.t = "str" THEN b.i ELSE TabLen(m, b) IN
       IF la < lb THEN "T" ELSE IF la > lb THEN "F"
       \* equal length: never less; "less than or equal" (the documented meaning of the instruction) is then "equal"
       ELSE IF op = "Less" THEN "F" ELSE EqV(m, a, b)
  ELSE "U"
Tri(m, r) == IF r = "U" THEN Unspec ELSE VBool(r = "T")
\* (the tokens "tiny" / "-tiny" are non-zero reals of very small magnitude: true like every non-zero number)
TruthV(m, x) == IF IsUnspec(x) THEN "U"
                ELSE IF IsTok(x) THEN (IF x.s \in {"tiny", "-tiny", "sm"} THEN "T" ELSE "U")
                ELSE IF Truthy(x, TabLen(m, x)) THEN "T" ELSE "F"
LenV(m, x) == CASE x.t = "nil" -> 0 [] x.t \in {"int", "real"} -> 1 [] x.t = "str" -> x.i
                [] x.t = "ref" -> TabLen(m, x) [] OTHER -> 0

\* ---- deep conversion of values for the observation ------------------------------------
\* (cyclic tables are outside the specified fragment; the depth bound only keeps the evaluation finite)
RECURSIVE DeepD(_, _, _)
DeepD(m, x, d) == IF x.t = "ref"
                  THEN IF d = 0 THEN [t |-> "cycle", e |-> <<>>]
                       ELSE [t |-> "tab", e |-> [j \in 1..Len(m.heap[x.i]) |-> <<DeepD(m, m.heap[x.i][j].k, d - 1), DeepD(m, m.heap[x.i][j].v, d - 1)>>]]
                  ELSE IF x.t = "clo" THEN [t |-> "clo", i |-> 0, e |-> 0, s |-> ""] ELSE x
Deep(m, x) == DeepD(m, x, 10)

\* ---- variables ------------------------------------------------------------------------
CurFr(m) == Top(m.fr)
\* bindings visible in the current function, outermost first: captured ones, then scopes
RECURSIVE Flat(_)
Flat(ss) == IF ss = <<>> THEN <<>> ELSE Head(ss) \o Flat(Tail(ss))
Visible(m) == CurFr(m).env \o Flat(CurFr(m).sc)
\* innermost binding of a name (the last one in Visible), 0 if none
FindCell(m, name) == LET vis == Visible(m) IN
                     IF \E j \in 1..Len(vis) : vis[j].n = name
                     THEN vis[CHOOSE j \in 1..Len(vis) : vis[j].n = name /\ \A q \in (j + 1)..Len(vis) : vis[q].n # name].c
                     ELSE 0
\* add a binding to the innermost scope of the current frame
Bind(m, name, val) ==
  LET nf == Len(m.fr)  ns == Len(m.fr[nf].sc) IN
  [m EXCEPT !.cells = Append(m.cells, val),
            !.fr[nf].sc[ns] = Append(@, [n |-> name, c |-> Len(m.cells) + 1])]
Assign(m, name, val) == IF FindCell(m, name) # 0 THEN [m EXCEPT !.cells[FindCell(m, name)] = val]
                        ELSE Bind(m, name, val)
PushScope(m) == [m EXCEPT !.fr[Len(m.fr)].sc = Append(@, <<>>)]
PopScope(m) == [m EXCEPT !.fr[Len(m.fr)].sc = Pop(@)]
HasGlobal(m, name) == name \in DOMAIN m.g
SetGlobal(m, name, val) == [m EXCEPT !.g = [x \in (DOMAIN m.g) \cup {name} |-> IF x = name THEN val ELSE m.g[x]]]

\* ---- calls ----------------------------------------------------------------------------
\* enter the body designated by `body` with arguments args (args[1] binds to the LAST parameter)
Invoke(m, body, env, args, callix) ==
  LET ps == BodyParams(m.pi, body)  np == Len(ps) IN
  IF Len(args) # np THEN Unspecified(m)
  ELSE LET cells2 == m.cells \o args
           sc == [j \in 1..np |-> [n |-> ps[np + 1 - j], c |-> Len(m.cells) + j]]
           frame == [sc |-> <<sc>>, env |-> env, callix |-> callix]
       IN [m EXCEPT !.cells = cells2, !.fr = Append(m.fr, frame),
                    !.k = Append(Append(Pop(m.k), Fr("ret", callix, 0, Len(m.v))), Fr("body", body, 0, Len(m.v)))]
\* leave the current function with value x
Return(m, x) ==
  IF ~\E j \in 1..Len(m.k) : m.k[j].op = "ret" THEN Unspecified(m)     \* Return outside a called function
  ELSE LET j == CHOOSE j \in 1..Len(m.k) : m.k[j].op = "ret" /\ \A q \in (j + 1)..Len(m.k) : m.k[q].op # "ret" IN
       [m EXCEPT !.k = Take(m.k, j - 1), !.v = Append(Take(m.v, m.k[j].h), x), !.fr = Pop(m.fr)]

CallValue(m, fv, args, callix) ==
  CASE fv.t = "fn" -> (IF FnIndex(m.pi, fv.s) = 0 THEN Fail(m, "ProcedureNotFound", callix)
                       ELSE Invoke(m, Ix(FnIndex(m.pi, fv.s), <<>>), <<>>, args, callix))
    [] fv.t = "clo" -> Invoke(m, m.clos[fv.i].ix, m.clos[fv.i].env, args, callix)
    [] OTHER -> Fail(m, "InvalidArgument", callix)

\* ---- host functions (C18) --------------------------------------------------------------------
\* natives: [name, arity, beh, types].  beh:
\*   "log"   record the call, return nil          "id"   record, return the first argument
\*   "fail"  record, return an error             "typed" convert every argument to its declared
\*   parameter type (documented TryFrom<Value> conversions) or reject the call
\*   "call"  re-enter: call the function value args[1] with the remaining arguments
\* dyadic real truncated toward zero (Real -> i64 conversion)
TruncDy(n, e) == IF n >= 0 THEN n \div Pow2(e) ELSE -((-n) \div Pow2(e))
\* Conv: the value the host function receives for parameter type ty, or Unspec / "bad"
Bad == Val("bad", 0, 0, "")
Conv(m, ty, x) ==
  CASE ty = "value" -> x
    [] ty = "i64" -> (CASE x.t = "int" -> x [] x.t = "real" -> (IF IsTok(x) THEN Unspec ELSE VInt(TruncDy(x.i, x.e)))
                        [] x.t = "nil" -> VInt(0) [] OTHER -> VInt(LenV(m, x)))
    [] ty = "f64" -> (CASE x.t = "real" -> x [] x.t = "int" -> VReal(x.i, 0) [] x.t = "nil" -> VReal(0, 0)
                        [] OTHER -> VReal(LenV(m, x), 0))
    [] ty = "bool" -> (IF TruthV(m, x) = "U" THEN Unspec ELSE VBool(TruthV(m, x) = "T"))
    [] ty = "str" -> (IF x.t = "str" THEN x ELSE Bad)
    [] ty = "table" -> (IF x.t = "ref" THEN x ELSE Bad)
    [] ty = "nilable_i64" -> (IF x.t = "nil" THEN VNil
                              ELSE CASE x.t = "int" -> x [] x.t = "real" -> (IF IsTok(x) THEN Unspec ELSE VInt(TruncDy(x.i, x.e)))
                                     [] OTHER -> VInt(LenV(m, x)))
    [] ty = "nilable_str" -> (IF x.t = "nil" THEN VNil ELSE IF x.t = "str" THEN x ELSE Bad)
\* what a typed host function returns: a function of its first converted argument
TypedResult(m, ty, x) ==
  CASE ty = "str" -> VInt(x.i) [] ty = "table" -> VInt(TabLen(m, x))
    [] ty = "nilable_i64" -> (IF x.t = "nil" THEN VInt(-1) ELSE x)
    [] ty = "nilable_str" -> (IF x.t = "nil" THEN VInt(-1) ELSE VInt(x.i)) [] OTHER -> x

FailTask(m, name, inner, params, ix) == Raise(m, "TaskFailure", ix, [name |-> name, inner |-> inner, params |-> params])

CallHost(m, name, args, callix) ==
  LET j == NatIndex(m.pi, name) IN
  IF j = 0 THEN Fail(m, "ProcedureNotFound", callix)
  ELSE LET nat == Prog(m.pi).natives[j]
           m2 == [m EXCEPT !.log = Append(m.log, [name |-> name, args |-> [q \in 1..Len(args) |-> Deep(m, args[q])]])] IN
       IF Len(args) # nat.arity THEN Unspecified(m)
       ELSE CASE nat.beh = "log" -> Yield(m2, VNil)
              [] nat.beh = "id" -> Yield(m2, args[1])
              [] nat.beh = "fail" -> FailTask(m2, name, "InvalidArgument", {}, callix)
              [] nat.beh = "typed" ->
                   LET cv == [q \in 1..Len(args) |-> Conv(m, nat.types[q], args[q])]
                       bad == {q \in 1..Len(args) : cv[q].t = "bad"} IN
                   IF \E q \in 1..Len(args) : IsUnspec(cv[q]) THEN Unspecified(m)
                   \* a rejected call never reaches the host function: nothing is logged
                   ELSE IF bad # {} THEN FailTask(m, name, "InvalidArgument", bad, callix)
                   ELSE Yield([m EXCEPT !.log = Append(m.log, [name |-> name, args |-> [q \in 1..Len(args) |-> Deep(m, cv[q])]])],
                              IF Len(args) = 0 THEN VNil ELSE TypedResult(m, nat.types[1], cv[1]))
              [] nat.beh = "call" ->
                   \* re-entry: the host pushes the remaining arguments and runs the function value
                   [m EXCEPT !.k = Append(Append(Pop(m.k), FrS("hostret", callix, 0, Len(m.v), VNil, <<>>, name)),
                                          [op |-> "callcb", ix |-> callix, n |-> 0, h |-> Len(m.v), x |-> args[1],
                                           xs |-> Tail(args), s |-> ""])]

CallValueOrNative(m, fv, args, callix) ==
  IF fv.t = "nat" THEN CallHost(m, fv.s, args, callix) ELSE CallValue(m, fv, args, callix)

\* ---- standard library, by contract (C09) -----------------------------------------------------
\* filter / map / any call back with (key, value, index); the *_by_key functions with (key, value)
StdNames == NativeBacked \cup {"std.filter", "std.map", "std.any"}
IsStd(name) == name \in StdNames
Row(k, x) == <<[k |-> VStr("key", 3), v |-> k], [k |-> VStr("value", 5), v |-> x]>>
StdCall(m, name, a, ix) ==
  LET t == a[Len(a)] IN
  IF name \in {"std.filter", "std.map", "std.any"} THEN
       IF Len(a) # 2 THEN Unspecified(m)
       ELSE IF t.t # "ref" THEN Fail(m, "InvalidArgument", ix)
       ELSE Replace(m, FrS("std", ix, 0, Len(m.v), a[1], m.heap[t.i], name))
  ELSE IF t.t # "ref" THEN Yield(m, t)                 \* non-table input: returned unchanged
  ELSE IF name = "std.to_array" THEN
       LET tab == m.heap[t.i] IN
       Yield(NewTable(m, [j \in 1..Len(tab) |-> [k |-> VInt(j - 1), v |-> tab[j].v]]), NewRef(m))
  ELSE IF name \in {"std.min", "std.max", "std.sorted"} THEN
       \* the key of an entry is its value: no callback, decide at once (frame with all keys present)
       LET tab == m.heap[t.i] IN
       Replace([m EXCEPT !.v = m.v \o [j \in 1..Len(tab) |-> tab[j].v]],
               FrS("std", ix, Len(tab), Len(m.v), VNil, tab, name))
  ELSE IF Len(a) # 2 THEN Unspecified(m)
  ELSE Replace(m, FrS("std", ix, 0, Len(m.v), a[1], m.heap[t.i], name))

\* stable ascending order of indices 1..n by key (insertion sort); "U" when keys are not comparable
RECURSIVE InsertSorted(_, _, _, _)
InsertSorted(m, keys, sorted, j) ==
  \* insert index j after every element that is not greater than keys[j]
  IF sorted = <<>> THEN <<j>>
  ELSE IF CmpV(m, "Less", keys[j], keys[Head(sorted)]) = "T" THEN <<j>> \o sorted
  ELSE <<Head(sorted)>> \o InsertSorted(m, keys, Tail(sorted), j)
RECURSIVE SortIdx(_, _, _)
SortIdx(m, keys, n) == IF n = 0 THEN <<>> ELSE InsertSorted(m, keys, SortIdx(m, keys, n - 1), n)
Comparable(m, keys) == \A i, j \in 1..Len(keys) : CmpV(m, "Less", keys[i], keys[j]) # "U"

StdStep(m, f) ==
  LET ents == f.xs  n == Len(f.xs)  res == LastN(m.v, f.n)  m0 == [m EXCEPT !.v = Take(m.v, f.h)]
      cb == [op |-> "callcb", ix |-> f.ix, n |-> 0, h |-> Len(m.v), x |-> f.x, xs |-> <<>>, s |-> ""] IN
  IF Len(m.v) # f.h + f.n THEN Unspecified(m)
  ELSE IF f.s \in {"std.filter", "std.map", "std.any"} THEN
       IF f.s = "std.any" /\ f.n > 0 /\ TruthV(m, res[f.n]) = "U" THEN Unspecified(m)
       ELSE IF f.s = "std.any" /\ f.n > 0 /\ TruthV(m, res[f.n]) = "T" THEN Yield(m0, ents[f.n].k)
       ELSE IF f.n < n THEN
            [m EXCEPT !.k = Append(Append(Pop(m.k), [f EXCEPT !.n = f.n + 1]),
                                   [cb EXCEPT !.xs = <<VInt(f.n), ents[f.n + 1].v, ents[f.n + 1].k>>])]
       ELSE IF f.s = "std.any" THEN Yield(m0, VNil)
       ELSE IF f.s = "std.map" THEN
            Yield(NewTable(m0, [j \in 1..n |-> [k |-> ents[j].k, v |-> res[j]]]), NewRef(m0))
       ELSE \* filter: entries whose callback result is truthy, same keys, same order
            IF \E j \in 1..n : TruthV(m, res[j]) = "U" THEN Unspecified(m)
            ELSE LET keep == SelectSeq([j \in 1..n |-> j], LAMBDA j : TruthV(m, res[j]) = "T") IN
                 Yield(NewTable(m0, [q \in 1..Len(keep) |-> ents[keep[q]]]), NewRef(m0))
  ELSE \* min / max / sorted (+ _by_key): one key per entry, key function called as (key, value)
       IF f.n < n THEN
            [m EXCEPT !.k = Append(Append(Pop(m.k), [f EXCEPT !.n = f.n + 1]),
                                   [cb EXCEPT !.xs = <<ents[f.n + 1].v, ents[f.n + 1].k>>])]
       ELSE IF n = 0 THEN (IF f.s \in {"std.sorted", "std.sorted_by_key"} THEN Yield(NewTable(m0, <<>>), NewRef(m0)) ELSE Yield(m0, VNil))
       ELSE IF ~Comparable(m, res) THEN Unspecified(m)
       ELSE IF f.s \in {"std.sorted", "std.sorted_by_key"} THEN
            LET ord == SortIdx(m, res, n) IN
            Yield(NewTable(m0, [q \in 1..n |-> ents[ord[q]]]), NewRef(m0))
       ELSE LET less(i, j) == IF f.s \in {"std.min", "std.min_by_key"} THEN CmpV(m, "Less", res[i], res[j]) = "T"
                                                                         ELSE CmpV(m, "Less", res[j], res[i]) = "T"
                \* the first entry that no other entry beats
                best == CHOOSE i \in 1..n : (\A j \in 1..n : ~less(j, i)) /\ (\A j \in 1..(i - 1) : \E q \in 1..n : less(q, j))
            IN Yield(NewTable(m0, Row(ents[best].k, ents[best].v)), NewRef(m0))

\* ---- evaluation order of the value children of a card (1-based child numbers) ------------
EvalOrder(card) == IF card.k = "DynamicCall" THEN [j \in 1..Len(card.c) |-> IF j < Len(card.c) THEN j + 1 ELSE 1]
                   ELSE [j \in 1..Len(card.c) |-> j]
ArgKinds == {"Add", "Sub", "Mul", "Div", "Less", "LessOrEq", "Equals", "NotEquals", "And", "Or", "Xor", "Not", "Len",
             "PopTable", "Return", "GetProperty", "SetProperty", "Get", "AppendTable", "SetVar", "SetGlobalVar",
             "Call", "CallNative", "DynamicCall"}

\* read variable path nm = <<base, prop1, ...>> at card ix
RECURSIVE Props(_, _, _, _)
Props(m, x, ps, ix) == IF ps = <<>> THEN Yield(m, x)
                       ELSE IF x.t # "ref" THEN Fail(m, "InvalidArgument", ix)
                       ELSE Props(m, TGet(m.heap[x.i], VStr(Head(ps).s, Head(ps).i)), Tail(ps), ix)
ReadBase(m, name) == IF FindCell(m, name) # 0 THEN m.cells[FindCell(m, name)]
                     ELSE IF HasGlobal(m, name) THEN m.g[name] ELSE Unspec   \* never-assigned variable
\* card.nm for variable cards: <<[s |-> segment, i |-> byte length], ...>>

EvalCard(m, f) ==
  LET card == CardAt(m.pi, f.ix)  kd == card.k IN
  CASE kd = "ScalarInt" -> Yield(m, IF card.s = "big" THEN VBig(card.i) ELSE VInt(card.i))
    [] kd = "ScalarFloat" -> Yield(m, IF card.s = "sm" THEN VSm(card.i) ELSE IF card.s # "" THEN VTok(card.s) ELSE VReal(card.i, card.e))
    [] kd = "StringLiteral" -> Yield(m, VStr(card.s, card.i))
    [] kd = "ScalarNil" -> Yield(m, VNil)
    [] kd = "CreateTable" -> Yield(NewTable(m, <<>>), NewRef(m))
    [] kd = "Function" -> (IF FnIndex(m.pi, card.s) = 0 THEN Unspecified(m) ELSE Yield(m, VFn(card.s)))
    [] kd = "NativeFunction" -> Yield(m, VNat(card.s))
    [] kd = "Closure" -> Yield([m EXCEPT !.clos = Append(m.clos, [ix |-> f.ix, env |-> Visible(m)])], VClo(Len(m.clos) + 1))
    [] kd = "Comment" -> Done(m)
    [] kd = "Abort" -> Finish(m)
    [] kd = "ReadVar" -> LET b == ReadBase(m, card.nm[1].s) IN
                         IF IsUnspec(b) THEN Unspecified(m) ELSE Props(m, b, Tail(card.nm), f.ix)
    [] kd \in ArgKinds -> Replace(m, Fr("args", f.ix, 0, Len(m.v)))
    [] kd = "Array" -> Replace(NewTable(m, <<>>), FrX("arr", f.ix, 0, Len(m.v), NewRef(m)))
    [] kd \in {"IfTrue", "IfFalse", "IfElse"} -> ReplacePush(m, Fr("if", f.ix, 0, Len(m.v)), Eval(Child(f.ix, 0)))
    [] kd = "While" -> Replace(m, Fr("while", f.ix, 0, Len(m.v)))
    [] kd = "Repeat" -> ReplacePush(m, Fr("rep0", f.ix, 0, Len(m.v)), Eval(Child(f.ix, 0)))
    [] kd = "ForEach" -> ReplacePush(m, Fr("fe0", f.ix, 0, Len(m.v)), Eval(Child(f.ix, 0)))
    [] kd = "CompositeCard" -> Replace(m, Fr("seq", f.ix, 0, Len(m.v)))

\* all value children of the card at f.ix are on top of m.v (in evaluation order)
Apply(m, f) ==
  LET card == CardAt(m.pi, f.ix)  kd == card.k  na == Len(card.c)
      a == LastN(m.v, na)
      m0 == [m EXCEPT !.v = Take(m.v, f.h)]          \* operands consumed
      ix == f.ix IN
  CASE kd \in {"Add", "Sub", "Mul", "Div"} -> Yield(m0, Arith(kd, a[1], a[2], TabLen(m, a[1]), TabLen(m, a[2])))
    [] kd \in {"Less", "LessOrEq"} -> Yield(m0, Tri(m, CmpV(m, kd, a[1], a[2])))
    [] kd = "Equals" -> Yield(m0, Tri(m, EqV(m, a[1], a[2])))
    [] kd = "NotEquals" -> Yield(m0, LET r == EqV(m, a[1], a[2]) IN IF r = "U" THEN Unspec ELSE VBool(r = "F"))
    [] kd \in {"And", "Or", "Xor"} ->
         LET x == TruthV(m, a[1])  y == TruthV(m, a[2]) IN
         IF x = "U" \/ y = "U" THEN Unspecified(m)
         ELSE Yield(m0, VBool(CASE kd = "And" -> x = "T" /\ y = "T" [] kd = "Or" -> x = "T" \/ y = "T"
                                [] kd = "Xor" -> (x = "T") # (y = "T")))
    [] kd = "Not" -> (IF TruthV(m, a[1]) = "U" THEN Unspecified(m) ELSE Yield(m0, VBool(TruthV(m, a[1]) = "F")))
    [] kd = "Len" -> Yield(m0, VInt(LenV(m, a[1])))
    [] kd = "Return" -> Return(m0, a[1])
    [] kd = "GetProperty" -> (IF a[1].t # "ref" THEN Fail(m, "InvalidArgument", ix)
                              ELSE Yield(m0, TGet(m.heap[a[1].i], a[2])))
    [] kd = "SetProperty" -> (IF a[2].t # "ref" THEN Fail(m, "InvalidArgument", ix)
                              ELSE Done([m0 EXCEPT !.heap[a[2].i] = TSet(@, a[3], a[1])]))
    [] kd = "AppendTable" -> (IF a[2].t # "ref" THEN Fail(m, "InvalidArgument", ix)
                              ELSE Done([m0 EXCEPT !.heap[a[2].i] = Append(@, [k |-> VInt(TAppendKey(@)), v |-> a[1]])]))
    [] kd = "PopTable" -> (IF a[1].t # "ref" THEN Fail(m, "InvalidArgument", ix)
                           ELSE LET tab == m.heap[a[1].i] IN
                                IF tab = <<>> THEN Yield(m0, VNil)
                                ELSE Yield([m0 EXCEPT !.heap[a[1].i] = Pop(tab)], Top(tab).v))
    [] kd = "Get" -> (IF a[1].t # "ref" \/ a[2].t # "int" THEN Fail(m, "InvalidArgument", ix)
                      ELSE IF a[2].i < 0 THEN Fail(m, "InvalidArgument", ix)
                      ELSE IF a[2].i >= Len(m.heap[a[1].i]) THEN Unspecified(m)     \* row out of range
                      ELSE LET e == m.heap[a[1].i][a[2].i + 1] IN
                           Yield(NewTable(m0, <<[k |-> VStr("key", 3), v |-> e.k], [k |-> VStr("value", 5), v |-> e.v]>>), NewRef(m0)))
    [] kd = "SetGlobalVar" -> Done(SetGlobal(m0, card.nm[1].s, a[1]))
    [] kd = "SetVar" ->
         IF Len(card.nm) = 1 THEN Done(Assign(m0, card.nm[1].s, a[1]))
         ELSE \* a.b.c := v : read a.b, then set property c
              LET b == ReadBase(m, card.nm[1].s)
                  RECURSIVE Walk(_, _)
                  Walk(x, ps) == IF Len(ps) = 1 THEN x
                                 ELSE IF x.t # "ref" THEN Unspec ELSE Walk(TGet(m.heap[x.i], VStr(Head(ps).s, Head(ps).i)), Tail(ps))
                  tgt == IF IsUnspec(b) THEN Unspec ELSE Walk(b, Tail(card.nm))
                  lastp == Top(card.nm) IN
              IF IsUnspec(b) THEN Unspecified(m)
              ELSE IF tgt.t # "ref" THEN Fail(m, "InvalidArgument", ix)
              ELSE Done([m0 EXCEPT !.heap[tgt.i] = TSet(@, VStr(lastp.s, lastp.i), a[1])])
    [] kd = "Call" -> (IF IsStd(card.s) THEN StdCall(m0, card.s, a, ix)
                       ELSE IF FnIndex(m.pi, card.s) = 0 THEN Unspecified(m)
                       ELSE Invoke(m0, Ix(FnIndex(m.pi, card.s), <<>>), <<>>, a, ix))
    [] kd = "DynamicCall" -> CallValueOrNative(m0, a[na], Take(a, na - 1), ix)
    [] kd = "CallNative" -> CallHost(m0, card.s, a, ix)

\* ---- one step of the machine ------------------------------------------------------------
StepM(m) ==
  LET f == Top(m.k)  ix == f.ix IN
  IF m.steps >= MaxSteps THEN Unspecified(m) ELSE
  LET m1 == [m EXCEPT !.steps = m.steps + 1] IN
  CASE f.op = "eval" -> EvalCard(m1, f)
    [] f.op = "args" ->
         LET card == CardAt(m.pi, ix)  ord == EvalOrder(card) IN
         \* every value child must have produced exactly one value
         IF Len(m.v) # f.h + f.n THEN Unspecified(m1)
         ELSE IF f.n < Len(ord) THEN ReplacePush(m1, [f EXCEPT !.n = f.n + 1], Eval(Child(ix, ord[f.n + 1] - 1)))
         ELSE Apply(m1, f)
    [] f.op = "arr" ->
         \* Array: append the value of each child (nil when the child produced none)
         LET card == CardAt(m.pi, ix)
             got == IF Len(m.v) > f.h THEN Top(m.v) ELSE VNil
             m2 == IF f.n = 0 THEN m1
                   ELSE [m1 EXCEPT !.v = Take(m.v, f.h),
                                   !.heap[f.x.i] = Append(@, [k |-> VInt(TAppendKey(@)), v |-> got])] IN
         IF Len(m.v) > f.h + 1 THEN Unspecified(m1)
         ELSE IF f.n < Len(card.c) THEN ReplacePush(m2, [f EXCEPT !.n = f.n + 1], Eval(Child(ix, f.n)))
         ELSE Yield(m2, f.x)
    [] f.op = "seq" ->
         \* a card that decomposes into several: all but the last are statements
         LET card == CardAt(m.pi, ix) IN
         IF f.n < Len(card.c)
         THEN ReplacePush([m1 EXCEPT !.v = Take(m.v, f.h)], [f EXCEPT !.n = f.n + 1], Eval(Child(ix, f.n)))
         ELSE Done(m1)
    [] f.op = "body" ->
         LET cards == BodyCards(m.pi, ix) IN
         IF f.n < Len(cards)
         THEN ReplacePush([m1 EXCEPT !.v = Take(m.v, f.h)], [f EXCEPT !.n = f.n + 1], Eval(Child(ix, f.n)))
         ELSE IF Len(m.fr) = 1 THEN Finish(m1)            \* end of main
         ELSE Return([m1 EXCEPT !.k = Pop(m.k)], VNil)   \* function end: returns nil
    [] f.op = "ret" -> Unspecified(m1)                     \* reached only through Return
    [] f.op = "if" ->
         LET card == CardAt(m.pi, ix)  c == TruthV(m, Top(m.v))  m2 == [m1 EXCEPT !.v = Take(m.v, f.h)] IN
         IF Len(m.v) # f.h + 1 \/ c = "U" THEN Unspecified(m1)
         ELSE (CASE card.k = "IfTrue" -> (IF c = "T" THEN Replace(m2, Eval(Child(ix, 1))) ELSE Done(m2))
                 [] card.k = "IfFalse" -> (IF c = "F" THEN Replace(m2, Eval(Child(ix, 1))) ELSE Done(m2))
                 [] card.k = "IfElse" -> Replace(m2, Eval(Child(ix, IF c = "T" THEN 1 ELSE 2))))
    [] f.op = "while" ->
         IF f.n = 0 THEN ReplacePush([m1 EXCEPT !.v = Take(m.v, f.h)], [f EXCEPT !.n = 1], Eval(Child(ix, 0)))
         ELSE LET c == TruthV(m, Top(m.v))  m2 == [m1 EXCEPT !.v = Take(m.v, f.h)] IN
              IF Len(m.v) # f.h + 1 \/ c = "U" THEN Unspecified(m1)
              ELSE IF c = "T" THEN ReplacePush(m2, [f EXCEPT !.n = 0], Eval(Child(ix, 1)))
              ELSE Done(m2)
    [] f.op = "rep0" -> (IF Len(m.v) # f.h + 1 THEN Unspecified(m1)
                         ELSE Replace([m1 EXCEPT !.v = Take(m.v, f.h)], FrX("rep", ix, 0, f.h, Top(m.v))))
    [] f.op = "rep" ->
         \* repeat while counter < n (the ordinary Less with its coercions)
         LET card == CardAt(m.pi, ix)  c == CmpV(m, "Less", VInt(f.n), f.x)  m2 == [m1 EXCEPT !.v = Take(m.v, f.h)] IN
         IF c = "U" THEN Unspecified(m1)
         ELSE IF c = "F" THEN Done(m2)
         ELSE LET m3 == PushScope(m2)
                  m4 == IF card.nm[1].s # "" THEN Bind(m3, card.nm[1].s, VInt(f.n)) ELSE m3 IN
              [m4 EXCEPT !.k = Append(Append(Append(Pop(m.k), [f EXCEPT !.n = f.n + 1]), Fr("endscope", ix, 0, f.h)), Eval(Child(ix, 1)))]
    [] f.op = "fe0" -> (IF Len(m.v) # f.h + 1 THEN Unspecified(m1)
                        ELSE IF Top(m.v).t # "ref" THEN Fail(m1, "InvalidArgument", ix)
                        ELSE Replace([m1 EXCEPT !.v = Take(m.v, f.h)], FrX("fe", ix, 0, f.h, Top(m.v))))
    [] f.op = "fe" ->
         LET card == CardAt(m.pi, ix)  tab == m.heap[f.x.i]  m2 == [m1 EXCEPT !.v = Take(m.v, f.h)] IN
         IF f.n >= Len(tab) THEN Done(m2)
         ELSE LET e == tab[f.n + 1]
                  m3 == PushScope(m2)
                  \* nm = <<i name, k name, v name>>, "" when absent; bound in the order v, k, i
                  m4 == IF card.nm[3].s # "" THEN Bind(m3, card.nm[3].s, e.v) ELSE m3
                  m5 == IF card.nm[2].s # "" THEN Bind(m4, card.nm[2].s, e.k) ELSE m4
                  m6 == IF card.nm[1].s # "" THEN Bind(m5, card.nm[1].s, VInt(f.n)) ELSE m5 IN
              [m6 EXCEPT !.k = Append(Append(Append(Pop(m.k), [f EXCEPT !.n = f.n + 1]), Fr("endscope", ix, 0, f.h)), Eval(Child(ix, 1)))]
    [] f.op = "std" -> StdStep(m1, f)
    [] f.op = "hostret" ->
         \* the callee returned: its value is handed back to the host, which reports the balance of the
         \* value stack and the call stack around the re-entry (0, 0) and returns the value to the script
         IF Len(m.v) # f.h + 1 THEN Unspecified(m1)
         ELSE Yield([m1 EXCEPT !.v = Take(m.v, f.h),
                               !.log = Append(m.log, [name |-> f.s, args |-> <<Deep(m, Top(m.v)), VInt(0), VInt(0)>>])], Top(m.v))
    [] f.op = "callcb" -> CallValueOrNative(m1, f.x, f.xs, ix)
    [] f.op = "endscope" -> Done(PopScope([m1 EXCEPT !.v = Take(m.v, f.h)]))

\* ---- initial machine and observation ------------------------------------------------------
MainIx(pi) == Ix(1, <<>>)            \* fns[1] is main
InitM(pi) == [pi |-> pi, k |-> <<Fr("body", MainIx(pi), 0, 0)>>, v |-> <<>>,
              fr |-> <<[sc |-> <<<<>>>>, env |-> <<>>, callix |-> NoIx]>>,
              cells |-> <<>>, heap |-> <<>>, clos |-> <<>>, g |-> [x \in {} |-> VNil], log |-> <<>>,
              out |-> Running, steps |-> 0, task |-> NoTask]
Terminal(m) == m.k = <<>>
\* the index as the crate reports it: function number within its module, namespace, path
Loc(pi, ix) == IF ix.fn = 0 THEN [ns |-> <<>>, f |-> 0, p |-> <<>>]
               ELSE [ns |-> Prog(pi).fns[ix.fn].ns, f |-> Prog(pi).fns[ix.fn].fi, p |-> ix.p]
Obs(m) == [globals |-> [x \in DOMAIN m.g |-> Deep(m, m.g[x])],
           log |-> m.log,
           st |-> m.out.st, kind |-> m.out.kind,
           task |-> m.task,
           at |-> Loc(m.pi, m.out.at),
           chain |-> [j \in 1..Len(m.out.chain) |-> Loc(m.pi, m.out.chain[j])]]

\* ---- invariants of the machine (checked in every state of every run) -------------------------
WellFormed(m) ==
  Terminal(m) \/
  /\ Len(m.fr) >= 1
  /\ \A j \in 1..Len(m.fr) : Len(m.fr[j].sc) >= 1
  /\ \A j \in 1..Len(m.fr) : \A q \in 1..Len(m.fr[j].sc) : \A b \in 1..Len(m.fr[j].sc[q]) :
        m.fr[j].sc[q][b].c \in 1..Len(m.cells)
  /\ \A j \in 1..Len(m.clos) : \A b \in 1..Len(m.clos[j].env) : m.clos[j].env[b].c \in 1..Len(m.cells)
  /\ \A j \in 1..Len(m.v) : m.v[j].t = "ref" => m.v[j].i \in 1..Len(m.heap)
  /\ \A j \in 1..Len(m.k) : m.k[j].h <= Len(m.v)
  /\ Cardinality({j \in 1..Len(m.k) : m.k[j].op = "ret"}) = Len(m.fr) - 1
=============================================================================
