---------------------------- MODULE CardSemCheck ----------------------------
(***************************************************************************)
(* Runs the reference machine CardSem on every program of an ndjson file   *)
(* (environment variable TRACE) and compares its observation with the one  *)
(* recorded from compile + run of the real crate.  One record per line:    *)
(*   {id, prog: Program, obs: Observation, cmp_loc: BOOLEAN}               *)
(* One TLC behaviour = all programs one after the other; every machine     *)
(* state is checked against the WellFormed invariant.                      *)
(***************************************************************************)
EXTENDS Sequences, Integers, Json, IOUtils, TLC

Rec == ndJsonDeserialize(IOEnv.TRACE)
N == Len(Rec)
ProgOf(pi) == Rec[pi].prog

INSTANCE CardSem WITH Prog <- ProgOf, MaxSteps <- 20000

VARIABLES pi, m
vars == <<pi, m>>

\* ---- comparison of a specified value with an observed one ---------------------------------
RECURSIVE ValMatch(_, _)
ValMatch(s, o) ==
  IF s.t = "tab" THEN o.t = "tab" /\ Len(s.e) = Len(o.e)
                      /\ \A j \in 1..Len(s.e) : ValMatch(s.e[j][1], o.e[j][1]) /\ ValMatch(s.e[j][2], o.e[j][2])
  ELSE IF s.t # o.t THEN FALSE
  ELSE CASE s.t = "real" -> (IF s.s = "inexact" THEN TRUE ELSE s.s = o.s /\ s.i = o.i /\ s.e = o.e)
         [] s.t = "int" -> s.i = o.i /\ s.e = o.e
         [] s.t = "str" -> s.s = o.s
         [] OTHER -> TRUE            \* nil, function values, closures: the kind is what can be observed
Unset == [t |-> "unset"]
NamedKinds == {"Timeout", "Stackoverflow", "CallStackOverflow", "OutOfMemory", "InvalidArgument",
               "ProcedureNotFound", "VarNotFound", "TaskFailure"}
SameLoc(a, b) == a.ns = b.ns /\ a.f = b.f /\ a.p = b.p
ObsMatch(s, o, cmploc) ==
  \/ s.st = "unspec"
  \/ /\ s.st = o.st
     /\ (s.st = "err" /\ s.kind \in NamedKinds) => s.kind = o.kind
     \* every global the reference run assigned has the specified value; the others are unset or nil
     /\ \A x \in DOMAIN o.globals :
          IF x \in DOMAIN s.globals THEN o.globals[x].t # "unset" /\ ValMatch(s.globals[x], o.globals[x])
          ELSE o.globals[x].t \in {"unset", "nil"}
     /\ \A x \in DOMAIN s.globals : x \in DOMAIN o.globals
     /\ Len(s.log) = Len(o.log)
     /\ \A j \in 1..Len(s.log) : /\ s.log[j].name = o.log[j].name
                                 /\ Len(s.log[j].args) = Len(o.log[j].args)
                                 /\ \A q \in 1..Len(s.log[j].args) : ValMatch(s.log[j].args[q], o.log[j].args[q])
     \* a failed host task carries the function's name; a rejected argument names a rejected parameter
     /\ (s.st = "err" /\ s.kind = "TaskFailure" /\ s.task.name # "") =>
          /\ o.task.name = s.task.name
          /\ s.task.params # {} => (o.task.inner = "InvalidArgument" /\ o.task.param \in s.task.params)
          \* ... and the error it wraps: the failure of a host function it called is a task failure of that function
          /\ (s.task.params = {} /\ s.task.inner \in NamedKinds) => o.task.inner = s.task.inner
     /\ (cmploc /\ s.st = "err") =>
          /\ o.trace # <<>> /\ SameLoc(s.at, o.trace[1])
          \* the call chain innermost first; the crate may append the program entry
          /\ Len(o.trace) - 1 \in {Len(s.chain), Len(s.chain) + 1}
          /\ \A j \in 1..Len(s.chain) : SameLoc(s.chain[j], o.trace[j + 1])

\* programs with a planted compile-time error: the compiler must refuse them, with the error
\* located at the planted card (r.expect_cerr = [kind, at]); the machine is not run
CerrCase(r) == "expect_cerr" \in DOMAIN r
CerrMatch(r) == /\ r.obs.st = "cerr" /\ r.obs.kind = r.expect_cerr.kind
                /\ r.obs.trace # <<>> /\ SameLoc(r.expect_cerr.at, r.obs.trace[1])

Init == pi = 1 /\ m = IF N >= 1 THEN InitM(1) ELSE [k |-> <<>>]
Next ==
  /\ pi <= N
  /\ IF CerrCase(Rec[pi])
     THEN /\ IF CerrMatch(Rec[pi])
             THEN PrintT(<<"VERDICT", ToJson([id |-> Rec[pi].id, ok |-> TRUE, st |-> "cerr", steps |-> 0])>>)
             ELSE PrintT(<<"MISMATCH", ToJson([id |-> Rec[pi].id,
                                               expected |-> [st |-> "cerr", kind |-> Rec[pi].expect_cerr.kind, at |-> Rec[pi].expect_cerr.at,
                                                             globals |-> <<>>, log |-> <<>>, chain |-> <<>>],
                                               got |-> Rec[pi].obs])>>)
          /\ pi' = pi + 1
          /\ m' = IF pi + 1 <= N THEN InitM(pi + 1) ELSE m
     ELSE IF ~Terminal(m) THEN m' = StepM(m) /\ pi' = pi
     ELSE /\ LET r == Rec[pi]  s == Obs(m) IN
               IF ObsMatch(s, r.obs, r.cmp_loc)
               THEN PrintT(<<"VERDICT", ToJson([id |-> r.id, ok |-> TRUE, st |-> s.st, steps |-> m.steps])>>)
               ELSE PrintT(<<"MISMATCH", ToJson([id |-> r.id, expected |-> s, got |-> r.obs])>>)
          /\ pi' = pi + 1
          /\ m' = IF pi + 1 <= N THEN InitM(pi + 1) ELSE m
Spec == Init /\ [][Next]_vars

AllDone == (pi = N + 1) => PrintT(<<"TRACE-DONE", N>>)
Inv == pi > N \/ WellFormed(m)
=============================================================================
