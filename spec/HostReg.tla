------------------------------- MODULE HostReg -------------------------------
(* C18: names reserved for the library (those beginning with two underscores) *)
(* cannot be registered by the host; every other name can.  The harness tries *)
(* to register each name of a list and records {chars, accepted}.             *)
EXTENDS Sequences, Naturals, Json, IOUtils, TLC
Rec == ndJsonDeserialize(IOEnv.TRACE)
Reserved(chars) == Len(chars) >= 2 /\ chars[1] = "_" /\ chars[2] = "_"
Check == \A n \in 1..Len(Rec) :
           \/ Rec[n].accepted = ~Reserved(Rec[n].chars)
           \/ PrintT(<<"MISMATCH", ToJson([chars |-> Rec[n].chars, accepted |-> Rec[n].accepted])>>)
VARIABLE dummy
Spec == dummy = 0 /\ [][UNCHANGED dummy]_dummy
Inv == Check /\ PrintT(<<"TRACE-DONE", Len(Rec)>>)
=============================================================================
