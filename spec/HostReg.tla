------------------------------- MODULE HostReg -------------------------------
(* C18: names reserved for the library (those beginning with two underscores) *)
(* cannot be registered by the host; every other name can.  The harness tries *)
(* to register each name of a list and records {chars, accepted}.             *)
EXTENDS Sequences, Naturals, Json, IOUtils, TLC
Rec == ndJsonDeserialize(IOEnv.TRACE)
Reserved(chars) == Len(chars) >= 2 /\ chars[1] = "_" /\ chars[2] = "_"
\* ... and a rejected registration leaves no trace: the name is callable from a script exactly when it was accepted, and
\* the library functions still do their own work afterwards ({callable, lib_ok} are observed by running a script)
Check == \A n \in 1..Len(Rec) :
           \/ /\ Rec[n].accepted = ~Reserved(Rec[n].chars)
              /\ Rec[n].callable = Rec[n].accepted
              /\ Rec[n].lib_ok
           \/ PrintT(<<"MISMATCH", ToJson([chars |-> Rec[n].chars, accepted |-> Rec[n].accepted, callable |-> Rec[n].callable, lib_ok |-> Rec[n].lib_ok])>>)
VARIABLE dummy
Spec == dummy = 0 /\ [][UNCHANGED dummy]_dummy
Inv == Check /\ PrintT(<<"TRACE-DONE", Len(Rec)>>)
=============================================================================
