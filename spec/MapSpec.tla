------------------------------- MODULE MapSpec -------------------------------
(***************************************************************************)
(* The mathematical map that CaoHashMap (C12) and HandleTable (C13) must   *)
(* behave as, with a drop ledger for the objects handed to the container.  *)
(*                                                                         *)
(* state:                                                                  *)
(*   m      : the map, a function from a subset of Keys to value ids       *)
(*   cl     : a clone taken earlier, [has |-> BOOLEAN, m |-> map]          *)
(*   nextv  : id the next value object created by the caller will get      *)
(*   cap0   : the requested initial capacity (does not influence results)  *)
(* Every value object has a unique id; a clone of it has the same logical  *)
(* id.  Key objects are identified by the key they denote.  The ledger is  *)
(* derived: an object is outstanding (created, not yet dropped) exactly    *)
(* when some container still holds it.                                     *)
(*                                                                         *)
(* op: [op |-> name, k |-> key, n |-> integer, fail |-> BOOLEAN]           *)
(*   fail = TRUE: the allocator is armed to fail its next allocation       *)
(*   before the call (and disarmed afterwards).                            *)
(* Kind = "hm": CaoHashMap<K,V>;  Kind = "ht": HandleTable<T>              *)
(***************************************************************************)
EXTENDS Naturals, Sequences, FiniteSets

CONSTANTS Keys, MaxV, Kind, Caps,
          GenFail    \* whether operations with an armed (failing) allocator are generated

Ret(ok, vs) == [ok |-> ok, vs |-> vs]
Out(r, s)   == [ret |-> r, st |-> s]
Op(name, k, n, fail) == [op |-> name, k |-> k, n |-> n, fail |-> fail]
NoKey == "-"

Empty == [k \in {} |-> 0]
New(c) == [m |-> Empty, cl |-> [has |-> FALSE, m |-> Empty], nextv |-> 1, cap0 |-> c]

Has(m, k) == k \in DOMAIN m
Put(m, k, v) == [x \in (DOMAIN m) \cup {k} |-> IF x = k THEN v ELSE m[x]]
Del(m, k) == [x \in (DOMAIN m) \ {k} |-> m[x]]

\* An allocation failure must be reported as an error; every previously stored entry stays
\* retrievable.  Whether the entry being inserted made it in is not specified: both admitted.
\* A call that needs no allocation simply succeeds although the allocator was armed.
Step(st, o) ==
  LET m == st.m  v == st.nextv IN
  CASE o.op = "insert" ->
         LET okst == [st EXCEPT !.m = Put(m, o.k, v), !.nextv = v + 1] IN
         IF ~o.fail THEN {Out(Ret(TRUE, <<>>), okst)}
         ELSE {Out(Ret(TRUE, <<>>), okst),
               Out(Ret(FALSE, <<>>), [st EXCEPT !.nextv = v + 1])}
              \cup (IF Kind = "hm" /\ ~Has(m, o.k) THEN {Out(Ret(FALSE, <<>>), okst)} ELSE {})
    [] o.op = "remove" ->
         IF Has(m, o.k) THEN {Out(Ret(TRUE, <<m[o.k]>>), [st EXCEPT !.m = Del(m, o.k)])}
         ELSE {Out(Ret(FALSE, <<>>), st)}
    [] o.op \in {"get", "index"} ->
         IF Has(m, o.k) THEN {Out(Ret(TRUE, <<m[o.k]>>), st)} ELSE {Out(Ret(FALSE, <<>>), st)}
    [] o.op = "contains" -> {Out(Ret(Has(m, o.k), <<>>), st)}
    [] o.op = "get_mut" ->
         \* the caller overwrites the value through the returned reference with a fresh object
         IF Has(m, o.k) THEN {Out(Ret(TRUE, <<m[o.k]>>), [st EXCEPT !.m = Put(m, o.k, v), !.nextv = v + 1])}
         ELSE {Out(Ret(FALSE, <<>>), st)}
    [] o.op = "entry" ->
         \* entry(k).or_insert_with(fresh value): returns the value now stored under k
         IF Has(m, o.k) THEN {Out(Ret(TRUE, <<m[o.k]>>), st)}
         ELSE LET okst == [st EXCEPT !.m = Put(m, o.k, v), !.nextv = v + 1] IN
              IF ~o.fail THEN {Out(Ret(TRUE, <<v>>), okst)}
              ELSE {Out(Ret(TRUE, <<v>>), okst), Out(Ret(FALSE, <<>>), st)}
    [] o.op = "reserve" ->
         IF ~o.fail THEN {Out(Ret(TRUE, <<>>), st)}
         ELSE {Out(Ret(TRUE, <<>>), st), Out(Ret(FALSE, <<>>), st)}
    [] o.op = "clear" -> {Out(Ret(TRUE, <<>>), [st EXCEPT !.m = Empty])}
    [] o.op = "clone" -> {Out(Ret(TRUE, <<>>), [st EXCEPT !.cl = [has |-> TRUE, m |-> m]])}
    [] o.op = "dropclone" -> {Out(Ret(TRUE, <<>>), [st EXCEPT !.cl = [has |-> FALSE, m |-> Empty]])}

FailFlags == IF GenFail THEN BOOLEAN ELSE {FALSE}
GenOps(st) ==
       {Op(name, k, 0, FALSE) : name \in {"remove", "get", "contains"}, k \in Keys}
  \cup (IF st.nextv <= MaxV THEN {Op("get_mut", k, 0, FALSE) : k \in Keys} ELSE {})
  \cup {Op("index", k, 0, FALSE) : k \in DOMAIN st.m}
  \cup (IF st.nextv <= MaxV
        THEN {Op(name, k, 0, f) : name \in {"insert", "entry"}, k \in Keys, f \in FailFlags} ELSE {})
  \cup {Op("reserve", NoKey, n, f) : n \in {0, 1, 5}, f \in FailFlags}
  \cup {Op("clear", NoKey, 0, FALSE), Op("clone", NoKey, 0, FALSE)}
  \cup (IF st.cl.has THEN {Op("dropclone", NoKey, 0, FALSE)} ELSE {})

\* ---- projection compared with the implementation after every call ----------------
Holders(st, v) == Cardinality({k \in DOMAIN st.m : st.m[k] = v})
                + Cardinality({k \in DOMAIN st.cl.m : st.cl.m[k] = v})
OutV(st) == [v \in 1..(st.nextv - 1) |-> Holders(st, v)]
OutK(st) == [k \in Keys |-> (IF Has(st.m, k) THEN 1 ELSE 0) + (IF Has(st.cl.m, k) THEN 1 ELSE 0)]
Proj(st) == IF Kind = "hm"
            THEN [m |-> st.m, cl |-> st.cl, outv |-> OutV(st), outk |-> OutK(st)]
            ELSE [m |-> st.m, cl |-> st.cl, outv |-> OutV(st)]

VARIABLE st
vars == <<st>>
Init == st \in {New(c) : c \in Caps}
Next == \E o \in GenOps(st) : \E out \in Step(st, o) : st' = out.st
Spec == Init /\ [][Next]_vars

\* ---- properties (C12 / C13) -----------------------------------------------------
TypeOK == /\ DOMAIN st.m \subseteq Keys
          /\ \A k \in DOMAIN st.m : st.m[k] \in 1..(st.nextv - 1)
\* an operation on one key never changes what is stored under another key
Frame == \A o \in GenOps(st) : \A out \in Step(st, o) :
           (o.k # NoKey) => \A k \in Keys \ {o.k} :
               /\ Has(out.st.m, k) = Has(st.m, k)
               /\ Has(st.m, k) => out.st.m[k] = st.m[k]
\* a lookup after an insert finds the inserted value, after a remove finds nothing
InsertGet == \A k \in Keys : \A out \in Step(st, Op("insert", k, 0, FALSE)) :
               \A g \in Step(out.st, Op("get", k, 0, FALSE)) : g.ret = Ret(TRUE, <<st.nextv>>)
RemoveGet == \A k \in Keys : \A out \in Step(st, Op("remove", k, 0, FALSE)) :
               \A g \in Step(out.st, Op("get", k, 0, FALSE)) : ~g.ret.ok
\* a failed allocation is an error and loses nothing that was stored before
FailAtomic == \A o \in GenOps(st) : \A out \in Step(st, o) :
                (o.fail /\ ~out.ret.ok) => \A k \in DOMAIN st.m : Has(out.st.m, k) /\ out.st.m[k] = st.m[k]
\* every value object is held by at most one entry of a map (plus its clone): dropped exactly once
DropOnce == \A v \in 1..(st.nextv - 1) :
              Cardinality({k \in DOMAIN st.m : st.m[k] = v}) <= 1
=============================================================================
