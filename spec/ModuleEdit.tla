------------------------------ MODULE ModuleEdit ------------------------------
(***************************************************************************)
(* The card-editing API of cao_lang::compiler::Module (property C16).      *)
(*                                                                         *)
(* A card is [lbl, cls, ch]: a label (identity), a shape class and the     *)
(* sequence of child cards.  Shape classes and the documented meaning of   *)
(* insert / remove on them:                                                *)
(*   leaf            no children; insert/remove fail                       *)
(*   fix1,fix2,fix3  fixed slots: insert(i) REPLACES slot i, remove(i)     *)
(*                   resets slot i to a placeholder leaf and returns the   *)
(*                   old card                                              *)
(*   list            a list of cards: true insert (i <= len) / remove      *)
(*   dyn             DynamicCall: child 0 is the fixed function slot,      *)
(*                   children 1.. are the argument list                    *)
(* A function body is a list of cards.                                     *)
(* module: [fns |-> << <<card,...>>, ... >>]                               *)
(* index : [f |-> function number, p |-> non-empty path], all 0-based      *)
(***************************************************************************)
EXTENDS Naturals, Sequences, FiniteSets

CONSTANTS Seed,       \* which seed module Init starts from
          MaxOps      \* depth bound for the generator

Card(l, c, ch) == [lbl |-> l, cls |-> c, ch |-> ch]
Leaf(l) == Card(l, "leaf", <<>>)
Placeholder == Leaf(0)           \* what a vacated fixed slot holds: some leaf card
Ix(f, p) == [f |-> f, p |-> p]
NoIx == Ix(0, <<>>)
NoCard == Leaf(0)

Ret(ok, cs) == [ok |-> ok, cards |-> cs]
Out(r, s)   == [ret |-> r, st |-> s]
Op(name, a, b, c) == [op |-> name, a |-> a, b |-> b, c |-> c]

FixN(cls) == CASE cls = "fix1" -> 1 [] cls = "fix2" -> 2 [] cls = "fix3" -> 3 [] OTHER -> 0
InsAt(s, i, x) == SubSeq(s, 1, i) \o <<x>> \o SubSeq(s, i + 1, Len(s))      \* i is 0-based
DelAt(s, i) == SubSeq(s, 1, i) \o SubSeq(s, i + 2, Len(s))
Front(p) == SubSeq(p, 1, Len(p) - 1)
Last(p) == p[Len(p)]

RECURSIVE GetC(_, _)
GetC(c, p) == IF p = <<>> THEN [ok |-> TRUE, c |-> c]
              ELSE IF Head(p) < Len(c.ch) THEN GetC(c.ch[Head(p) + 1], Tail(p))
              ELSE [ok |-> FALSE, c |-> NoCard]
RECURSIVE UpdC(_, _, _)
UpdC(c, p, n) == IF p = <<>> THEN n ELSE [c EXCEPT !.ch[Head(p) + 1] = UpdC(@, Tail(p), n)]

\* ---- child-level editing by shape class
InsertChild(c, i, n) ==
  CASE c.cls = "leaf" -> [ok |-> FALSE, c |-> c]
    [] c.cls \in {"fix1", "fix2", "fix3"} ->
         IF i < FixN(c.cls) THEN [ok |-> TRUE, c |-> [c EXCEPT !.ch[i + 1] = n]] ELSE [ok |-> FALSE, c |-> c]
    [] c.cls = "list" ->
         IF i <= Len(c.ch) THEN [ok |-> TRUE, c |-> [c EXCEPT !.ch = InsAt(c.ch, i, n)]] ELSE [ok |-> FALSE, c |-> c]
    [] c.cls = "dyn" ->
         IF i = 0 THEN [ok |-> TRUE, c |-> [c EXCEPT !.ch[1] = n]]
         ELSE IF i <= Len(c.ch) THEN [ok |-> TRUE, c |-> [c EXCEPT !.ch = InsAt(c.ch, i, n)]]
         ELSE [ok |-> FALSE, c |-> c]
RemoveChild(c, i) ==
  CASE c.cls = "leaf" -> [ok |-> FALSE, c |-> c, old |-> NoCard]
    [] c.cls \in {"fix1", "fix2", "fix3"} ->
         IF i < FixN(c.cls) THEN [ok |-> TRUE, c |-> [c EXCEPT !.ch[i + 1] = Placeholder], old |-> c.ch[i + 1]]
         ELSE [ok |-> FALSE, c |-> c, old |-> NoCard]
    [] c.cls = "list" ->
         IF i < Len(c.ch) THEN [ok |-> TRUE, c |-> [c EXCEPT !.ch = DelAt(c.ch, i)], old |-> c.ch[i + 1]]
         ELSE [ok |-> FALSE, c |-> c, old |-> NoCard]
    [] c.cls = "dyn" ->
         IF i = 0 THEN [ok |-> TRUE, c |-> [c EXCEPT !.ch[1] = Placeholder], old |-> c.ch[1]]
         ELSE IF i < Len(c.ch) THEN [ok |-> TRUE, c |-> [c EXCEPT !.ch = DelAt(c.ch, i)], old |-> c.ch[i + 1]]
         ELSE [ok |-> FALSE, c |-> c, old |-> NoCard]

\* ---- module-level operations
ValidF(m, ix) == ix.f < Len(m.fns) /\ ix.p # <<>>
Body(m, ix) == m.fns[ix.f + 1]
Get(m, ix) == IF ValidF(m, ix) /\ ix.p[1] < Len(Body(m, ix))
              THEN GetC(Body(m, ix)[ix.p[1] + 1], Tail(ix.p)) ELSE [ok |-> FALSE, c |-> NoCard]
\* replace the card at a valid index
Put(m, ix, n) == [m EXCEPT !.fns[ix.f + 1][ix.p[1] + 1] = UpdC(@, Tail(ix.p), n)]

Insert(m, ix, n) ==
  IF ~ValidF(m, ix) THEN [ok |-> FALSE, m |-> m]
  ELSE IF Len(ix.p) = 1
       THEN IF ix.p[1] <= Len(Body(m, ix))
            THEN [ok |-> TRUE, m |-> [m EXCEPT !.fns[ix.f + 1] = InsAt(@, ix.p[1], n)]]
            ELSE [ok |-> FALSE, m |-> m]
       ELSE LET par == Ix(ix.f, Front(ix.p))  g == Get(m, par) IN
            IF ~g.ok THEN [ok |-> FALSE, m |-> m]
            ELSE LET r == InsertChild(g.c, Last(ix.p), n) IN
                 IF r.ok THEN [ok |-> TRUE, m |-> Put(m, par, r.c)] ELSE [ok |-> FALSE, m |-> m]
Remove(m, ix) ==
  IF ~ValidF(m, ix) THEN [ok |-> FALSE, m |-> m, old |-> NoCard]
  ELSE IF Len(ix.p) = 1
       THEN IF ix.p[1] < Len(Body(m, ix))
            THEN [ok |-> TRUE, m |-> [m EXCEPT !.fns[ix.f + 1] = DelAt(@, ix.p[1])], old |-> Body(m, ix)[ix.p[1] + 1]]
            ELSE [ok |-> FALSE, m |-> m, old |-> NoCard]
       ELSE LET par == Ix(ix.f, Front(ix.p))  g == Get(m, par) IN
            IF ~g.ok THEN [ok |-> FALSE, m |-> m, old |-> NoCard]
            ELSE LET r == RemoveChild(g.c, Last(ix.p)) IN
                 IF r.ok THEN [ok |-> TRUE, m |-> Put(m, par, r.c), old |-> r.old]
                 ELSE [ok |-> FALSE, m |-> m, old |-> NoCard]

IsPrefix(p, q) == Len(p) <= Len(q) /\ SubSeq(q, 1, Len(p)) = p
Related(a, b) == a.f = b.f /\ (IsPrefix(a.p, b.p) \/ IsPrefix(b.p, a.p))

Step(m, o) ==
  CASE o.op = "get" -> LET g == Get(m, o.a) IN
         {Out(Ret(g.ok, IF g.ok THEN <<g.c>> ELSE <<>>), m)}
    [] o.op = "insert" -> LET r == Insert(m, o.a, o.c) IN {Out(Ret(r.ok, <<>>), r.m)}
    [] o.op = "remove" -> LET r == Remove(m, o.a) IN
         {Out(Ret(r.ok, IF r.ok THEN <<r.old>> ELSE <<>>), r.m)}
    [] o.op = "replace" -> LET g == Get(m, o.a) IN
         IF g.ok THEN {Out(Ret(TRUE, <<g.c>>), Put(m, o.a, o.c))} ELSE {Out(Ret(FALSE, <<>>), m)}
    [] o.op = "swap" ->
         LET ga == Get(m, o.a)  gb == Get(m, o.b) IN
         IF ~ga.ok \/ ~gb.ok THEN {Out(Ret(FALSE, <<>>), m)}
         \* swapping a card with itself changes nothing; whether it is reported as success is not specified
         ELSE IF o.a = o.b THEN {Out(Ret(TRUE, <<>>), m), Out(Ret(FALSE, <<>>), m)}
         ELSE IF Related(o.a, o.b) THEN {Out(Ret(FALSE, <<>>), m)}
         ELSE {Out(Ret(TRUE, <<>>), Put(Put(m, o.a, gb.c), o.b, ga.c))}

\* ---- all nodes of a module with their indices
RECURSIVE NodesC(_, _, _)
NodesC(c, f, p) == {[ix |-> Ix(f, p), c |-> c]}
                   \cup UNION {NodesC(c.ch[k], f, Append(p, k - 1)) : k \in 1..Len(c.ch)}
Nodes(m) == UNION {UNION {NodesC(m.fns[f][k], f - 1, <<k - 1>>) : k \in 1..Len(m.fns[f])} : f \in 1..Len(m.fns)}
Indices(m) == {n.ix : n \in Nodes(m)}

\* candidate indices for the generator: every node, plus "one past" positions, plus bad ones
GenIx(m) == Indices(m)
            \cup {Ix(n.ix.f, Append(n.ix.p, Len(n.c.ch))) : n \in Nodes(m)}
            \cup {Ix(n.ix.f, Append(n.ix.p, Len(n.c.ch) + 1)) : n \in Nodes(m)}
            \cup {Ix(f - 1, <<Len(m.fns[f])>>) : f \in 1..Len(m.fns)}
            \cup {Ix(f - 1, <<Len(m.fns[f]) + 1>>) : f \in 1..Len(m.fns)}
            \cup {Ix(Len(m.fns), <<0>>)}
            \cup {Ix(f - 1, <<>>) : f \in 1..Len(m.fns)}      \* a function, but no card in it
NewCards == {Leaf(90), Card(91, "list", <<Leaf(92)>>), Card(93, "fix2", <<Leaf(94), Leaf(95)>>)}
GenOps(m) ==
       {Op("get", a, NoIx, NoCard) : a \in GenIx(m)}
  \cup {Op("remove", a, NoIx, NoCard) : a \in GenIx(m)}
  \cup {Op(name, a, NoIx, c) : name \in {"insert", "replace"}, a \in GenIx(m), c \in NewCards}
  \cup {Op("swap", a, b, NoCard) : a \in Indices(m) \cup {Ix(Len(m.fns), <<0>>)}, b \in Indices(m)}

Proj(m) == m

\* ---- seed modules ---------------------------------------------------------------
Seed1 == [fns |-> << << Card(1, "list", <<Leaf(2), Card(3, "fix2", <<Leaf(4), Leaf(5)>>)>>),
                        Card(6, "dyn", <<Leaf(7), Leaf(8)>>) >>,
                     << Leaf(9) >> >>]
Seed2 == [fns |-> << << Card(1, "fix3", <<Leaf(2), Card(3, "list", <<>>), Card(4, "fix1", <<Leaf(5)>>)>>),
                        Leaf(6) >> >>]
Seed3 == [fns |-> << << Card(1, "fix2", <<Card(2, "dyn", <<Leaf(3)>>), Card(4, "list", <<Leaf(5), Leaf(6), Leaf(7)>>)>>) >>,
                     << >>,
                     << Card(8, "fix1", <<Card(9, "fix1", <<Leaf(10)>>)>>) >> >>]
SeedModule == CASE Seed = 1 -> Seed1 [] Seed = 2 -> Seed2 [] Seed = 3 -> Seed3

VARIABLES st, nops
vars == <<st, nops>>
Init == st = SeedModule /\ nops = 0
Next == /\ nops < MaxOps
        /\ \E o \in GenOps(st) : \E out \in Step(st, o) : st' = out.st
        /\ nops' = nops + 1
Spec == Init /\ [][Next]_vars

\* ---- properties (C16) ------------------------------------------------------------
\* every card has exactly one index, and looking the index up returns that card
UniqueIndex == \A a, b \in Nodes(st) : a.ix = b.ix => a = b
LookupAgrees == \A n \in Nodes(st) : Get(st, n.ix) = [ok |-> TRUE, c |-> n.c]
\* remove undoes insert at the same index (list-shaped parents and function bodies are restored,
\* fixed slots at least hand the inserted card back)
RemoveUndoesInsert ==
  \A a \in GenIx(st) : \A c \in NewCards :
     LET r == Insert(st, a, c) IN
       r.ok => LET u == Remove(r.m, a) IN
                 /\ u.ok /\ u.old = c
                 /\ (Len(a.p) = 1 \/ Get(st, Ix(a.f, Front(a.p))).c.cls = "list") => u.m = st
ReplaceBackRestores ==
  \A a \in Indices(st) : \A c \in NewCards :
     \A o1 \in Step(st, Op("replace", a, NoIx, c)) :
        \A o2 \in Step(o1.st, Op("replace", a, NoIx, o1.ret.cards[1])) : o2.st = st /\ o2.ret.cards = <<c>>
SwapTwiceIsIdentity ==
  \A a, b \in Indices(st) : \A o1 \in Step(st, Op("swap", a, b, NoCard)) :
     o1.ret.ok => \A o2 \in Step(o1.st, Op("swap", a, b, NoCard)) : o2.ret.ok => o2.st = st
FailedEditsChangeNothing ==
  \A o \in GenOps(st) : \A out \in Step(st, o) : ~out.ret.ok => out.st = st
AncestorSwapFails ==
  \A a, b \in Indices(st) : (a # b /\ Related(a, b)) =>
     \A o \in Step(st, Op("swap", a, b, NoCard)) : ~o.ret.ok /\ o.st = st
=============================================================================
