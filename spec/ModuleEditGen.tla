---------------------------- MODULE ModuleEditGen ----------------------------
(* Behaviour producer for ModuleEdit (spec -> implementation replay); see    *)
(* ValueStackGen for the scheme.                                              *)
EXTENDS ModuleEdit, Json, TLC
VARIABLE hist
gvars == <<st, nops, hist>>
StepRec(o, s0) == [op |-> o, allowed |-> {[ret |-> x.ret, proj |-> Proj(x.st)] : x \in Step(s0, o)}]
GInit == Init /\ hist = <<>>
GNext == /\ nops < MaxOps
         /\ nops' = nops + 1
         /\ \E o \in GenOps(st) : \E out \in Step(st, o) :
              /\ st' = out.st
              /\ hist' = Append(hist, [op |-> o, allowed |-> StepRec(o, st).allowed,
                                       took |-> [ret |-> out.ret, proj |-> Proj(out.st)]])
GSpec == GInit /\ [][GNext]_gvars
View == <<st, nops>>
Emit == PrintT(<<"REPLAY", ToJson([kind |-> "module", init |-> SeedModule, prefix |-> hist,
                                   fan |-> {StepRec(o, st) : o \in GenOps(st)}])>>)
=============================================================================
