--------------------------- MODULE ModuleEditTrace ---------------------------
(* Trace validation for edit histories recorded by `cv modedit-drive`.       *)
(* A case starts with a reset record whose `init` field is the module.       *)
EXTENDS ModuleEdit, Json, IOUtils, TLC

Rec == ndJsonDeserialize(IOEnv.TRACE)
N == Len(Rec)
VARIABLE l
tvars == <<st, nops, l>>

IsReset(k) == Rec[k].op.op = "reset"
NextReset(k) == IF \E j \in (k + 1)..N : IsReset(j)
                THEN CHOOSE j \in (k + 1)..N : IsReset(j) /\ \A m \in (k + 1)..(j - 1) : ~IsReset(m)
                ELSE N + 1
Known == {"get", "insert", "remove", "replace", "swap"}
Matches(r) == IF r.op.op \in Known
              THEN {o \in Step(st, r.op) : o.ret = r.ret /\ Proj(o.st) = r.proj}
              ELSE {}
TInit == l = 1 /\ st = [fns |-> <<>>] /\ nops = 0
TNext ==
  /\ l <= N /\ nops' = nops
  /\ LET r == Rec[l] IN
       IF IsReset(l) THEN st' = r.init /\ l' = l + 1
       ELSE IF Matches(r) # {} THEN (\E o \in Matches(r) : st' = o.st) /\ l' = l + 1
       ELSE /\ PrintT(<<"MISMATCH", ToJson([line |-> l, case |-> r.case, op |-> r.op,
                                            got |-> [ret |-> r.ret, proj |-> r.proj], state |-> st,
                                            allowed |-> IF r.op.op \in Known
                                                        THEN {[ret |-> o.ret, proj |-> Proj(o.st)] : o \in Step(st, r.op)}
                                                        ELSE {}])>>)
            /\ l' = NextReset(l) /\ st' = st
TSpec == TInit /\ [][TNext]_tvars
Done == (l = N + 1) => PrintT(<<"TRACE-DONE", N>>)
Inv == UniqueIndex /\ LookupAgrees
=============================================================================
