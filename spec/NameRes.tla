------------------------------- MODULE NameRes -------------------------------
(***************************************************************************)
(* Name resolution of static calls / function references (property C08).   *)
(*                                                                         *)
(* A configuration is a module tree (which functions exist), the module of *)
(* the call site, its import list and the name written at the call site.   *)
(* Names and paths are sequences of segments (joined with "." by the       *)
(* harness).  Resolution, in this order, first hit wins:                   *)
(*   1. the name as an absolute path from the root                         *)
(*   2. the name relative to the caller's own module                       *)
(*   3. a function import whose last segment is the (undotted) name        *)
(*   4. a module import whose last segment is the first segment of the     *)
(*      name; the rest of the name is looked up below the imported module  *)
(* An import path is relative to the importing module; every leading       *)
(* "super" climbs one module up.                                           *)
(* The expected result of a configuration is a SET of admitted outcomes:   *)
(*   [run |-> target path]  the program compiles and the call runs exactly *)
(*                          that function                                  *)
(*   [cerr |-> TRUE]        compilation is refused                         *)
(***************************************************************************)
EXTENDS Naturals, Sequences, FiniteSets, Json, TLC

CONSTANT Shard

Last(s) == s[Len(s)]
RECURSIVE SuperCount(_)
SuperCount(p) == IF p # <<>> /\ Head(p) = "super" THEN 1 + SuperCount(Tail(p)) ELSE 0
Strip(p, k) == SubSeq(p, k + 1, Len(p))
\* the absolute path an import designates when written in module ns, or <<"!">> if it climbs too far
ImportTarget(ns, imp) == LET k == SuperCount(imp) IN
                         IF k > Len(ns) THEN <<"!">> ELSE SubSeq(ns, 1, Len(ns) - k) \o Strip(imp, k)
ValidSeg(x) == x \notin {"", "super", "a.b", "f-x", "std"}
\* "super" segments may only lead an import path
WellFormedImport(imp) == Len(imp) >= 2 /\ \A j \in 1..Len(imp) : imp[j] # "" /\ (imp[j] = "super" => \A q \in 1..j : imp[q] = "super")
                         /\ Last(imp) # "super"

\* ---- resolution ----------------------------------------------------------------------
\* returns the set of admitted outcomes
Run(t) == [run |-> t, cerr |-> FALSE]
Cerr == [run |-> <<>>, cerr |-> TRUE]
Resolve(fns, ns, imports, name) ==
  LET fimp == {i \in imports : Len(name) = 1 /\ Last(i) = name[1]}
      mimp == {i \in imports : Len(name) >= 2 /\ Last(i) = name[1]} IN
  IF name \in fns THEN {Run(name)}
  ELSE IF ns \o name \in fns THEN {Run(ns \o name)}
  ELSE IF fimp # {} /\ (\E i \in fimp : ImportTarget(ns, i) = <<"!">>) THEN {Cerr}
  ELSE IF \E i \in fimp : ImportTarget(ns, i) \in fns THEN {Run(ImportTarget(ns, CHOOSE i \in fimp : ImportTarget(ns, i) \in fns))}
  ELSE IF mimp # {} /\ (\E i \in mimp : ImportTarget(ns, i) = <<"!">>) THEN {Cerr}
  ELSE IF \E i \in mimp : ImportTarget(ns, i) \o Tail(name) \in fns
       THEN LET i == CHOOSE i \in mimp : ImportTarget(ns, i) \o Tail(name) \in fns
                t == ImportTarget(ns, i) \o Tail(name) IN
            \* a module import that climbs with "super": the property only demands that IF it compiles
            \* the designated function runs
            IF SuperCount(i) > 0 THEN {Run(t), Cerr} ELSE {Run(t)}
  ELSE {Cerr}

\* static errors of the whole program
Expected(c) ==
  IF \E i \in c.imports : ~WellFormedImport(i) THEN {Cerr}
  ELSE IF \E i, j \in c.imports : i # j /\ Last(i) = Last(j) THEN {Cerr}        \* ambiguous imports
  ELSE IF c.flaw # "none" THEN {Cerr}
  ELSE Resolve(c.fns, c.ns, c.imports, c.name)

\* ---- the enumerated universe ------------------------------------------------------------
\* module tree: root, a, a.b, c ; candidate functions f, g in each
AllFns == { <<"f">>, <<"g">>, <<"a", "f">>, <<"a", "g">>, <<"a", "b", "f">>, <<"a", "b", "g">>, <<"c", "f">>, <<"c", "g">> }
FnFamilies == { {<<"f">>, <<"a", "f">>, <<"a", "b", "f">>, <<"c", "f">>},
                {<<"g">>, <<"a", "b", "g">>, <<"c", "g">>, <<"a", "f">>},
                {<<"a", "b", "f">>, <<"a", "b", "g">>, <<"c", "f">>},
                {<<"f">>, <<"c", "f">>, <<"c", "g">>, <<"a", "g">>},
                AllFns,
                {<<"c", "f">>} }
Sites == { <<>>, <<"a">>, <<"a", "b">>, <<"c">> }
Names == { <<"f">>, <<"g">>, <<"a", "f">>, <<"a", "b", "f">>, <<"b", "f">>, <<"b", "g">>, <<"c", "f">>, <<"c", "g">>, <<"h">> }
ImportPool == { <<"a", "f">>, <<"a", "b", "g">>, <<"b", "g">>, <<"b", "f">>, <<"a", "b">>, <<"b">>, <<"c">>, <<"c", "f">>,
                <<"super", "f">>, <<"super", "super", "f">>, <<"super", "c", "f">>, <<"super", "c">>, <<"super", "super", "c">>,
                <<"super", "super", "super", "f">>, <<"a", "", "f">>, <<"f">>, <<"a", "super", "f">> }
ImportSets == {{}} \cup {{i} : i \in ImportPool} \cup {{i, j} : i, j \in ImportPool}
Conf(fns, ns, imports, name, flaw) == [fns |-> fns, ns |-> ns, imports |-> imports, name |-> name, flaw |-> flaw]

ResolveConfs == { Conf(fns, ns, imps, name, "none") : fns \in FnFamilies, ns \in Sites, imps \in ImportSets, name \in Names }
\* flawed programs: the call itself would resolve, the program has to be refused anyway
Flaws == {"duplicate-function", "duplicate-function-in-submodule", "same-name-in-two-modules-is-fine",
          "bad-function-name-dot", "bad-function-name-empty", "bad-function-name-super", "bad-function-name-dash",
          "bad-module-name-dot", "bad-module-name-empty", "bad-module-name-super", "user-module-std", "duplicate-module",
          "duplicate-module-nested", "duplicate-module-below-a", "no-main"}
FlawConfs == { Conf({<<"f">>, <<"a", "f">>}, <<>>, {}, <<"f">>, fl) : fl \in Flaws }
FlawExpected(c) == IF c.flaw = "same-name-in-two-modules-is-fine" THEN {Run(<<"f">>)} ELSE {Cerr}

\* only the caller module's own imports count: imports of the enclosing module (field pimps, ignored by Expected) do not
\* reach into a nested module that imports nothing itself
PImportPool == { <<"a", "f">>, <<"b", "g">>, <<"b", "f">>, <<"a", "b">>, <<"c", "f">>, <<"c", "g">>,
                 <<"super", "f">>, <<"super", "c", "f">>, <<"super", "c">> }
InheritConfs == { [fns |-> fns, ns |-> ns, imports |-> {}, name |-> name, flaw |-> "none", pimps |-> {i}] :
                    fns \in FnFamilies, ns \in {<<"a">>, <<"a", "b">>, <<"c">>}, name \in Names, i \in PImportPool }
Confs == CASE Shard = "resolve" -> ResolveConfs [] Shard = "flaws" -> FlawConfs [] Shard = "inherit" -> InheritConfs

VARIABLE conf
Init == conf \in Confs
Next == UNCHANGED conf
Spec == Init /\ [][Next]_conf
Emit == PrintT(<<"CASE", ToJson([conf |-> conf,
                                 expected |-> IF Shard = "flaws" THEN FlawExpected(conf) ELSE Expected(conf)])>>)

\* ---- properties of the resolution function itself ------------------------------------------
\* whatever is designated exists; the absolute path always wins; resolution is deterministic up to
\* the documented permissive corner
Sound == \A o \in Expected(conf) : o.cerr \/ o.run \in conf.fns
AbsoluteWins == (conf.flaw = "none" /\ conf.name \in conf.fns /\ Expected(conf) # {Cerr}) => Expected(conf) = {Run(conf.name)}
AtMostOneTarget == Cardinality({o \in Expected(conf) : ~o.cerr}) <= 1
=============================================================================
