------------------------------ MODULE OpenAddr ------------------------------
(***************************************************************************)
(* Slot-level model of the two open-addressing tables of Cao-Lang:         *)
(*   Kind = "hm"  CaoHashMap   (collections/hash_map.rs)                   *)
(*   Kind = "ht"  HandleTable  (collections/handle_table.rs)               *)
(* It follows the code: one array of slots, linear probing from the home   *)
(* slot, growth before an insertion that would exceed the maximum load     *)
(* (re-inserting the old slots in index order), removal by backward shift  *)
(* (an entry moves back into the hole unless that would take it before its *)
(* home slot).  It refines MapSpec (properties C12 / C13): the map a slot   *)
(* array stands for changes exactly as MapSpec says.                        *)
(*                                                                         *)
(* A key's hash is represented by its residue h[k] modulo Mod; Mod has to  *)
(* be a multiple of every capacity that occurs (invariant ModOK), so that  *)
(* the home slot at capacity c is h[k] % c.  Init chooses every assignment *)
(* of residues to keys (up to renaming of keys), so TLC visits every slot  *)
(* layout a table with these few keys can get into: clusters that wrap     *)
(* around the end of the array, entries in and out of their home slot, and *)
(* each of them before and after growth.  The replay harness realises the  *)
(* residues with real keys found by searching the real hash function.      *)
(***************************************************************************)
EXTENDS Integers, Sequences, FiniteSets

CONSTANTS KeySeq,   \* the model keys, as a sequence <<"k1", "k2", ...>>
          Kind, Cap0s, Mod, MaxV,
          ResSet    \* the residues modulo Mod that real keys can have (the multiplier 2654435769 of the home-slot computation is
                    \* divisible by 3, so with CaoHashMap's 32-bit hashes only multiples of 3 occur when 3 divides Mod)

Keys == {KeySeq[i] : i \in 1..Len(KeySeq)}
KS2 == <<"k1", "k2">>
KS3 == <<"k1", "k2", "k3">>
KS4 == <<"k1", "k2", "k3", "k4">>
KS5 == <<"k1", "k2", "k3", "k4", "k5">>
NoKey == "-"
Ret(ok, vs) == [ok |-> ok, vs |-> vs]
Out(r, s)   == [ret |-> r, st |-> s]
Op(name, k, n, fail) == [op |-> name, k |-> k, n |-> n, fail |-> fail]

\* a slot holds a key and the id of the value object stored with it; slots are numbered from 0 like in the code
Free == [k |-> NoKey, v |-> 0]
At(s, i) == s[i + 1].k
ValAt(s, i) == s[i + 1].v
Put(s, i, x) == [s EXCEPT ![i + 1] = x]
EmptySlots(c) == [i \in 1..c |-> Free]
Pots == {1, 2, 4, 8, 16, 32, 64, 128}
PadPot(n) == CHOOSE p \in Pots : p >= n /\ \A q \in Pots : q >= n => p <= q
Max(a, b) == IF a > b THEN a ELSE b
MinOf(S) == CHOOSE d \in S : \A e \in S : d <= e

InitCap(c) == IF Kind = "hm" THEN Max(c, 1) ELSE PadPot(Max(c, 2))
GrowCap(c) == LET n == (Max(c, 2) * 3) \div 2 IN IF Kind = "hm" THEN n ELSE Max(PadPot(n), 4)
\* count as f32 > capacity as f32 * MAX_LOAD  (0.7 / 0.69)
NeedsGrow(n, c) == IF Kind = "hm" THEN 10 * n > 7 * c ELSE 100 * n > 69 * c

\* find_ind: first slot from the home slot on that is empty or holds k; -1 = probing never ends
Find(slots, cap, home, k) ==
  LET D == {d \in 0..(cap - 1) : At(slots, (home + d) % cap) \in {NoKey, k}}
  IN IF D = {} THEN -1 ELSE (home + MinOf(D)) % cap

Place(slots, cap, home, k, v) == Put(slots, Find(slots, cap, home, k), [k |-> k, v |-> v])

\* adjust_capacity: the old slots are re-inserted in index order
RECURSIVE Rehash(_, _, _, _, _, _)
Rehash(new, old, i, oldcap, newcap, h) ==
  IF i = oldcap THEN new
  ELSE IF At(old, i) = NoKey THEN Rehash(new, old, i + 1, oldcap, newcap, h)
  ELSE Rehash(Place(new, newcap, h[At(old, i)] % newcap, At(old, i), ValAt(old, i)), old, i + 1, oldcap, newcap, h)

\* the backward shift after a removal; `hole` is the empty slot, j the slot being inspected
RECURSIVE BackShift(_, _, _, _, _, _)
BackShift(slots, cap, h, hole, j, fuel) ==
  IF fuel = 0 \/ At(slots, j) = NoKey THEN slots
  ELSE LET k == At(slots, j)
           home == h[k] % cap
       IN IF (hole + cap - home) % cap < (j + cap - home) % cap
          THEN BackShift(Put(Put(slots, hole, slots[j + 1]), j, Free), cap, h, j, (j + 1) % cap, fuel - 1)
          ELSE BackShift(slots, cap, h, hole, (j + 1) % cap, fuel - 1)

Present(s) == {k \in Keys : \E i \in 1..s.cap : s.slots[i].k = k}
Count(s) == Cardinality({i \in 1..s.cap : s.slots[i].k # NoKey})
Grown(s) == LET c == GrowCap(s.cap) IN
            [s EXCEPT !.cap = c, !.slots = Rehash(EmptySlots(c), s.slots, 0, s.cap, c, s.h)]
Slot(s, k) == Find(s.slots, s.cap, s.h[k] % s.cap, k)
Stored(s, k) == Slot(s, k) >= 0 /\ At(s.slots, Slot(s, k)) = k
Got(s, k) == ValAt(s.slots, Slot(s, k))
\* write (k, v) into the slot probing finds for k: an empty one, or the one holding k (overwrite)
Placed(s, k, v) == [s EXCEPT !.slots = Place(s.slots, s.cap, s.h[k] % s.cap, k, v), !.nextv = v + 1]

InsertNew(s, k, v) ==   \* k is not stored
  LET g == IF NeedsGrow(Count(s) + 1, s.cap) THEN Grown(s) ELSE s IN Placed(g, k, v)

Step(s, o) ==
  LET v == s.nextv IN
  CASE o.op = "insert" ->
         IF Kind = "hm"
         THEN (IF Stored(s, o.k) THEN {Out(Ret(TRUE, <<>>), Placed(s, o.k, v))}
               ELSE {Out(Ret(TRUE, <<>>), InsertNew(s, o.k, v))})
         ELSE \* HandleTable grows first, whether or not the key is new
              LET g == IF NeedsGrow(Count(s) + 1, s.cap) THEN Grown(s) ELSE s IN
              {Out(Ret(TRUE, <<>>), Placed(g, o.k, v))}
    [] o.op = "entry" ->   \* entry(k).or_insert_with(fresh value)
         IF Stored(s, o.k) THEN {Out(Ret(TRUE, <<Got(s, o.k)>>), s)}
         ELSE {Out(Ret(TRUE, <<v>>), InsertNew(s, o.k, v))}
    [] o.op = "remove" ->
         IF ~Stored(s, o.k) THEN {Out(Ret(FALSE, <<>>), s)}
         ELSE LET i == Slot(s, o.k) IN
              {Out(Ret(TRUE, <<Got(s, o.k)>>),
                   [s EXCEPT !.slots = BackShift(Put(s.slots, i, Free), s.cap, s.h, i, (i + 1) % s.cap, s.cap)])}
    [] o.op \in {"get", "index"} ->
         IF Stored(s, o.k) THEN {Out(Ret(TRUE, <<Got(s, o.k)>>), s)} ELSE {Out(Ret(FALSE, <<>>), s)}
    [] o.op = "contains" -> {Out(Ret(Stored(s, o.k), <<>>), s)}
    [] o.op = "clear" -> {Out(Ret(TRUE, <<>>), [s EXCEPT !.slots = EmptySlots(s.cap)])}

GenOps(s) ==
       {Op(name, k, 0, FALSE) : name \in {"remove", "get", "contains"}, k \in Keys}
  \cup {Op("index", k, 0, FALSE) : k \in Present(s)}
  \cup (IF MaxV = 0 \/ s.nextv <= MaxV THEN {Op(name, k, 0, FALSE) : name \in {"insert", "entry"}, k \in Keys} ELSE {})
  \cup {Op("clear", NoKey, 0, FALSE)}

\* residues, nondecreasing along KeySeq (keys are interchangeable otherwise)
Residues == {f \in [Keys -> ResSet] : \A i \in 1..(Len(KeySeq) - 1) : f[KeySeq[i]] <= f[KeySeq[i + 1]]}
New(c, f) == [cap |-> InitCap(c), slots |-> EmptySlots(InitCap(c)), h |-> f, nextv |-> 1, cap0 |-> c]

VARIABLE st
vars == <<st>>
Init == st \in {New(c, f) : c \in Cap0s, f \in Residues}
Next == \E o \in GenOps(st) : \E out \in Step(st, o) : st' = out.st
Spec == Init /\ [][Next]_vars

\* ---- the map a slot array stands for, in the vocabulary of MapSpec -------------------------
AbsMap(s) == [k \in Present(s) |-> s.slots[CHOOSE i \in 1..s.cap : s.slots[i].k = k].v]
Abs(s) == [m |-> AbsMap(s), cl |-> [has |-> FALSE, m |-> [k \in {} |-> 0]], nextv |-> s.nextv, cap0 |-> s.cap0]
M == INSTANCE MapSpec WITH Keys <- Keys, MaxV <- MaxV, Kind <- Kind, Caps <- Cap0s, GenFail <- FALSE, st <- Abs(st)
Proj(s) == M!Proj(Abs(s))

\* the slot layout without the value ids (VIEW of the layout-exhaustive configurations: MaxV = 0, unbounded ids)
Layout == [cap |-> st.cap, keys |-> [i \in 1..st.cap |-> st.slots[i].k], h |-> st.h, cap0 |-> st.cap0]

\* ---- design properties ------------------------------------------------------------------
ModOK == Mod % st.cap = 0
\* every stored key is reachable: no empty slot between its home slot and its slot
ProbeInv == \A i \in 0..(st.cap - 1) : At(st.slots, i) # NoKey =>
              LET k == At(st.slots, i)  home == st.h[k] % st.cap
              IN \A d \in 0..(st.cap - 1) : d < (i + st.cap - home) % st.cap => At(st.slots, (home + d) % st.cap) # NoKey
NoDup == \A i, j \in 1..st.cap : (i # j /\ st.slots[i].k # NoKey) => st.slots[i].k # st.slots[j].k
\* there is always an empty slot, so probing for an absent key terminates
ProbeEnds == Count(st) < st.cap /\ \A k \in Keys : Find(st.slots, st.cap, st.h[k] % st.cap, k) >= 0
\* lookups find exactly the stored keys
FindsAll == \A k \in Keys : Stored(st, k) <=> k \in Present(st)
\* every operation changes the abstract map exactly as MapSpec admits
Refines == \A o \in GenOps(st) : \A out \in Step(st, o) :
             \E a \in M!Step(Abs(st), o) : a.ret = out.ret /\ a.st = Abs(out.st)
=============================================================================
