---------------------------- MODULE OpenAddrGen ----------------------------
(* Behaviour producer for OpenAddr (spec -> implementation replay): one test case per distinct *)
(* slot layout -- the path that produced it plus every operation enabled there.  The case has  *)
(* the format of MapSpecGen (the harness compares the abstract map only), plus the residues    *)
(* the real keys must have.                                                                    *)
EXTENDS OpenAddr, Json, TLC

VARIABLE hist
gvars == <<st, hist>>
StepRec(o, s0) == [op |-> o, allowed |-> {[ret |-> x.ret, proj |-> Proj(x.st)] : x \in Step(s0, o)}]
GInit == Init /\ hist = <<>>
GNext == \E o \in GenOps(st) : \E out \in Step(st, o) :
            /\ st' = out.st
            /\ hist' = Append(hist, [op |-> o, allowed |-> StepRec(o, st).allowed,
                                     took |-> [ret |-> out.ret, proj |-> Proj(out.st)]])
GSpec == GInit /\ [][GNext]_gvars
View == Layout
Emit == PrintT(<<"REPLAY", ToJson([kind |-> Kind, nkeys |-> Len(KeySeq), init |-> st.cap0, mod |-> Mod, hashes |-> st.h,
                                   layout |-> Layout.keys, prefix |-> hist, fan |-> {StepRec(o, st) : o \in GenOps(st)}])>>)
=============================================================================
