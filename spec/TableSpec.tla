------------------------------ MODULE TableSpec ------------------------------
(***************************************************************************)
(* Cao-Lang tables as insertion-ordered maps keyed by value (property C07).*)
(*                                                                         *)
(* A table is a sequence of entries [k |-> key, v |-> value] with pairwise *)
(* distinct keys.  Keys and values are tagged records                      *)
(*     [t |-> "nil" | "int" | "real" | "str", i |-> Int, s |-> STRING]     *)
(* two keys are the same key iff the records are equal: integers by value, *)
(* strings by text (the harness creates a fresh string object for every    *)
(* use), reals by value (only finite non-zero ones are generated), nil.    *)
(* An integer and a real are never the same key.                           *)
(*                                                                         *)
(* state: [tabs |-> <<table, ...>>]  -- the tables the driver holds        *)
(* op   : [op, t (table number), k (key), v (value), n (index)]            *)
(***************************************************************************)
EXTENDS Integers, Sequences, FiniteSets

CONSTANTS KeySet,     \* keys used by the generator
          ValSet,     \* values used by the generator
          NTabs,      \* number of tables
          MaxLen      \* generator bound on entries per table

NilV == [t |-> "nil", i |-> 0, s |-> ""]
IntV(n) == [t |-> "int", i |-> n, s |-> ""]
StrV(x) == [t |-> "str", i |-> 0, s |-> x]
RealV(x) == [t |-> "real", i |-> 0, s |-> x]

Ret(ok, vs) == [ok |-> ok, vs |-> vs]
Out(r, s)   == [ret |-> r, st |-> s]
Op(name, t, k, v, n) == [op |-> name, t |-> t, k |-> k, v |-> v, n |-> n]

New == [tabs |-> [j \in 1..NTabs |-> <<>>]]

Idx(tab, k) == IF \E j \in 1..Len(tab) : tab[j].k = k
               THEN CHOOSE j \in 1..Len(tab) : tab[j].k = k ELSE 0
HasKey(tab, k) == Idx(tab, k) # 0
Lookup(tab, k) == IF HasKey(tab, k) THEN tab[Idx(tab, k)].v ELSE NilV
Without(tab, j) == SubSeq(tab, 1, j - 1) \o SubSeq(tab, j + 1, Len(tab))
SetKey(tab, k, v) == IF HasKey(tab, k) THEN [tab EXCEPT ![Idx(tab, k)].v = v]
                     ELSE Append(tab, [k |-> k, v |-> v])
\* the key `append` uses: the smallest integer >= current length that is not a key yet
AppendKey(tab) == CHOOSE n \in Len(tab)..(2 * Len(tab) + 1) :
                     /\ ~HasKey(tab, IntV(n))
                     /\ \A m \in Len(tab)..(n - 1) : HasKey(tab, IntV(m))

WithTab(st, t, tab) == [st EXCEPT !.tabs[t] = tab]

Step(st, o) ==
  LET tab == st.tabs[o.t] IN
  \* set / append may need memory: under a memory limit they may be refused, and then the table is as it was
  CASE o.op = "set" -> {Out(Ret(TRUE, <<>>), WithTab(st, o.t, SetKey(tab, o.k, o.v))), Out(Ret(FALSE, <<>>), st)}
    [] o.op = "get" -> {Out(Ret(TRUE, <<Lookup(tab, o.k)>>), st)}
    [] o.op = "has" -> {Out(Ret(HasKey(tab, o.k), <<>>), st)}
    [] o.op = "len" -> {Out(Ret(TRUE, <<IntV(Len(tab))>>), st)}
    [] o.op = "append" -> {Out(Ret(TRUE, <<>>), WithTab(st, o.t, Append(tab, [k |-> IntV(AppendKey(tab)), v |-> o.v]))),
                           Out(Ret(FALSE, <<>>), st)}
    [] o.op = "pop" ->
         IF Len(tab) = 0 THEN {Out(Ret(TRUE, <<NilV>>), st)}
         ELSE {Out(Ret(TRUE, <<tab[Len(tab)].v>>), WithTab(st, o.t, SubSeq(tab, 1, Len(tab) - 1)))}
    [] o.op = "remove" ->
         IF HasKey(tab, o.k) THEN {Out(Ret(TRUE, <<>>), WithTab(st, o.t, Without(tab, Idx(tab, o.k))))}
         ELSE {Out(Ret(TRUE, <<>>), st)}
    [] o.op = "nth" ->
         \* row by index: [key, value]; only specified for 0 <= n < length
         IF o.n < Len(tab) THEN {Out(Ret(TRUE, <<tab[o.n + 1].k, tab[o.n + 1].v>>), st)} ELSE {}

GenOps(st) ==
  UNION {
       {Op("set", t, k, v, 0) : k \in KeySet, v \in ValSet}
  \cup {Op(name, t, k, NilV, 0) : name \in {"get", "has", "remove"}, k \in KeySet}
  \cup {Op("len", t, NilV, NilV, 0), Op("pop", t, NilV, NilV, 0)}
  \cup {Op("append", t, NilV, v, 0) : v \in ValSet}
  \cup {Op("nth", t, NilV, NilV, n) : n \in 0..(Len(st.tabs[t]) - 1)}
  : t \in 1..NTabs}

Proj(st) == st.tabs

\* ---- constant sets used by the model configurations (cfg files cannot write records) -----
KeysSmall == {IntV(0), IntV(1), StrV("a"), NilV}
KeysMed   == {IntV(0), IntV(1), IntV(2), IntV(3), StrV("a"), StrV("ab"), RealV("0.5"), NilV}
KeysBig   == {IntV(n) : n \in 0..12} \cup {IntV(-1), StrV("a"), StrV("ab"), StrV("key"), RealV("0.5"), RealV("2.5"), NilV}
ValsSmall == {IntV(7), NilV}
ValsMed   == {IntV(7), IntV(8), StrV("a"), NilV}

VARIABLE st
vars == <<st>>
Init == st = New
Next == \E o \in GenOps(st) : \E out \in Step(st, o) :
           /\ \A t \in 1..NTabs : Len(out.st.tabs[t]) <= MaxLen
           /\ st' = out.st
Spec == Init /\ [][Next]_vars

\* ---- properties (C07) ----------------------------------------------------------
DistinctKeys == \A t \in 1..NTabs : \A a, b \in 1..Len(st.tabs[t]) :
                  a # b => st.tabs[t][a].k # st.tabs[t][b].k
SetGet == \A t \in 1..NTabs : \A k \in KeySet, v \in ValSet :
            \A out \in Step(st, Op("set", t, k, v, 0)) : out.ret.ok =>
              \A g \in Step(out.st, Op("get", t, k, NilV, 0)) : g.ret.vs = <<v>>
MissingIsNil == \A t \in 1..NTabs : \A k \in KeySet :
                  ~HasKey(st.tabs[t], k) =>
                     \A g \in Step(st, Op("get", t, k, NilV, 0)) : g.ret.vs = <<NilV>>
AppendRule == \A t \in 1..NTabs : \A out \in Step(st, Op("append", t, NilV, IntV(7), 0)) : out.ret.ok =>
                LET tab == st.tabs[t]  new == out.st.tabs[t] IN
                  /\ Len(new) = Len(tab) + 1
                  /\ new[Len(new)].k.t = "int" /\ new[Len(new)].k.i >= Len(tab)
                  /\ ~HasKey(tab, new[Len(new)].k)
                  /\ \A m \in Len(tab)..(new[Len(new)].k.i - 1) : HasKey(tab, IntV(m))
PopRule == \A t \in 1..NTabs : \A out \in Step(st, Op("pop", t, NilV, NilV, 0)) :
             LET tab == st.tabs[t] IN
               IF Len(tab) = 0 THEN out.ret.vs = <<NilV>> /\ out.st = st
               ELSE /\ out.ret.vs = <<tab[Len(tab)].v>>
                    /\ ~HasKey(out.st.tabs[t], tab[Len(tab)].k)
                    /\ Len(out.st.tabs[t]) = Len(tab) - 1
\* operations on one table never change another (tables are distinct objects)
Frame == \A o \in GenOps(st) : \A out \in Step(st, o) :
           \A t \in 1..NTabs : t # o.t => out.st.tabs[t] = st.tabs[t]
\* a refused operation changes nothing
RefusedChangesNothing == \A o \in GenOps(st) : \A out \in Step(st, o) : ~out.ret.ok => out.st = st
=============================================================================
