---------------------------- MODULE TableSpecGen ----------------------------
(* Behaviour producer for TableSpec (spec -> implementation replay).       *)
(* `hist` is the path that reached `st`; it is hidden from the state        *)
(* fingerprint with VIEW, so in BFS mode TLC visits every distinct abstract *)
(* state once and prints one test case per state: the path to it plus every *)
(* operation enabled there with its set of admissible outcomes.  In         *)
(* simulation mode the same spec prints long random behaviours.             *)
EXTENDS TableSpec, Json, TLC

CONSTANTS SimDepth,   \* 0 = BFS/fan mode, > 0 = print whole behaviours of that length
          PreferOk    \* which branch the producer follows where the spec admits success and failure

VARIABLE hist
gvars == <<st, hist>>

StepRec(o, s0) == [op |-> o, allowed |-> {[ret |-> x.ret, proj |-> Proj(x.st)] : x \in Step(s0, o)}]

\* Where several outcomes are admitted the producer follows those whose `ok` flag equals PreferOk
\* (both settings are run, so no implementation choice is baked in).
Chosen(S) == LET P == {x \in S : x.ret.ok = PreferOk} IN IF P = {} THEN S ELSE P
GInit == Init /\ hist = <<>>
GNext == \E o \in GenOps(st) : \E out \in Chosen(Step(st, o)) :
            /\ \A t \in 1..NTabs : Len(out.st.tabs[t]) <= MaxLen
            /\ st' = out.st
            /\ hist' = Append(hist, [op |-> o,
                                     allowed |-> StepRec(o, st).allowed,
                                     took |-> [ret |-> out.ret, proj |-> Proj(out.st)]])
GSpec == GInit /\ [][GNext]_gvars

View == st

Emit ==
  IF SimDepth = 0
  THEN PrintT(<<"REPLAY", ToJson([kind |-> "table", init |-> NTabs, prefix |-> hist,
                                  fan |-> {StepRec(o, st) : o \in GenOps(st)}])>>)
  ELSE (Len(hist) = SimDepth) =>
         PrintT(<<"REPLAY", ToJson([kind |-> "table", init |-> NTabs, prefix |-> hist, fan |-> {}])>>)

SimBound == SimDepth = 0 \/ Len(hist) <= SimDepth
=============================================================================
