---------------------------- MODULE TableSpecTrace ----------------------------
(* Trace validation (implementation -> specification) for table histories   *)
(* recorded by `cv table-drive`; see ValueStackTrace.                        *)
EXTENDS TableSpec, Json, IOUtils, TLC

Rec == ndJsonDeserialize(IOEnv.TRACE)
N == Len(Rec)

VARIABLE l
tvars == <<st, l>>

IsReset(k) == Rec[k].op.op = "reset"
NextReset(k) == IF \E j \in (k + 1)..N : IsReset(j)
                THEN CHOOSE j \in (k + 1)..N : IsReset(j) /\ \A m \in (k + 1)..(j - 1) : ~IsReset(m)
                ELSE N + 1

Known == {"set", "get", "has", "len", "append", "pop", "remove", "nth"}
Matches(r) == IF r.op.op \in Known
              THEN {o \in Step(st, r.op) : o.ret = r.ret /\ Proj(o.st) = r.proj}
              ELSE IF r.op.op = "drop" /\ r.ret = [ok |-> TRUE, vs |-> <<>>]
                   THEN {[ret |-> r.ret, st |-> st]}    \* everything released, nothing leaked
                   ELSE {}

TInit == l = 1 /\ st = New
TNext ==
  /\ l <= N
  /\ LET r == Rec[l] IN
       IF IsReset(l) THEN st' = New /\ l' = l + 1
       ELSE IF Matches(r) # {} THEN (\E o \in Matches(r) : st' = o.st) /\ l' = l + 1
       ELSE /\ PrintT(<<"MISMATCH", ToJson([line |-> l, case |-> r.case, op |-> r.op,
                                            got |-> [ret |-> r.ret, proj |-> r.proj],
                                            state |-> st,
                                            allowed |-> IF r.op.op \in Known
                                                        THEN {[ret |-> o.ret, proj |-> Proj(o.st)] : o \in Step(st, r.op)}
                                                        ELSE {}])>>)
            /\ l' = NextReset(l) /\ st' = st
TSpec == TInit /\ [][TNext]_tvars

Done == (l = N + 1) => PrintT(<<"TRACE-DONE", N>>)
Inv == DistinctKeys
=============================================================================
