------------------------------- MODULE Transport -------------------------------
(***************************************************************************)
(* Serialization round trips (property C11).                               *)
(*                                                                         *)
(* An artefact (source module, compiled program, runtime value) has an     *)
(* abstract projection; Ser(fmt) writes it to the wire, De(fmt) reads it   *)
(* back.  The specification is the two-step state machine                  *)
(*      held --Ser(fmt)--> on the wire --De(fmt)--> held again             *)
(* with the requirement that the projection after De equals the projection *)
(* before Ser, and, for programs, that running the artefact read back      *)
(* gives the outcome of running the original.                              *)
(*                                                                         *)
(* The harness records one line per round trip                             *)
(*   {id, kind, fmt, before, after, run_before, run_after}                 *)
(* where before/after are the projections (for source modules: of the      *)
(* programs they compile to, byte for byte).                               *)
(***************************************************************************)
EXTENDS Naturals, Sequences, Json, IOUtils, TLC

Rec == ndJsonDeserialize(IOEnv.TRACE)
N == Len(Rec)
Formats == [module |-> {"json", "yaml"}, compiled |-> {"json", "cbor", "bincode"}, value |-> {"json", "cbor", "bincode"}]

\* projections are arbitrary JSON documents: compare their canonical renderings
Same(a, b) == ToJson(a) = ToJson(b)

VARIABLES l, phase, held
vars == <<l, phase, held>>
Init == l = 1 /\ phase = "held" /\ held = <<>>

\* Ser: the artefact goes to the wire in one of the formats supported for its kind
Ser == /\ phase = "held" /\ l <= N
       /\ Rec[l].fmt \in Formats[Rec[l].kind]
       /\ held' = Rec[l].before /\ phase' = "wire" /\ l' = l
\* De: what comes back has the projection that went out (and behaves the same)
De == /\ phase = "wire"
      /\ IF Same(Rec[l].after, held) /\ Same(Rec[l].run_after, Rec[l].run_before)
         THEN PrintT(<<"VERDICT", ToJson([id |-> Rec[l].id, kind |-> Rec[l].kind, fmt |-> Rec[l].fmt, ok |-> TRUE])>>)
         ELSE PrintT(<<"MISMATCH", ToJson([id |-> Rec[l].id, kind |-> Rec[l].kind, fmt |-> Rec[l].fmt,
                                           projection_differs |-> ~Same(Rec[l].after, held),
                                           outcome_differs |-> ~Same(Rec[l].run_after, Rec[l].run_before),
                                           error |-> Rec[l].error])>>)
      /\ phase' = "held" /\ l' = l + 1 /\ held' = <<>>
Next == Ser \/ De
Spec == Init /\ [][Next]_vars
AllDone == (l = N + 1) => PrintT(<<"TRACE-DONE", N>>)
=============================================================================
