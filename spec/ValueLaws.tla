------------------------------ MODULE ValueLaws ------------------------------
(***************************************************************************)
(* Equality, hashing, ordering and truthiness of runtime values (C19).     *)
(*                                                                         *)
(* A value term is a record [t, i, s, e]:                                  *)
(*   nil  : t = "nil"                                                      *)
(*   int  : t = "int",  i = the integer, or s = "max" / "min" (i64 bounds) *)
(*   real : t = "real", s = token: "+0" "-0" "0.5" "-0.5" "1.0" "2.5"      *)
(*                                 "nan" "inf" "-inf"                      *)
(*   str  : t = "str",  s = text, i = byte length                          *)
(*   tab  : t = "tab",  e = sequence of <<key term, value term>>           *)
(*   fn   : t = "fn",   s = name (a script function value)                 *)
(* The relations are given as SETS of admitted results: a singleton where  *)
(* the property is explicit, a larger set where it is silent.              *)
(***************************************************************************)
EXTENDS Integers, Sequences, FiniteSets, TLC

V(t, i, s, e) == [t |-> t, i |-> i, s |-> s, e |-> e]
Nil == V("nil", 0, "", <<>>)
I(n) == V("int", n, "", <<>>)
IMax == V("int", 0, "max", <<>>)
IMin == V("int", 0, "min", <<>>)
R(tok) == V("real", 0, tok, <<>>)
S(x, n) == V("str", n, x, <<>>)
T(es) == V("tab", 0, "", es)
\* the same table value with another history: n further entries were inserted and removed again (its storage grew)
TG(n, es) == V("tab", n, "", es)
F(x) == V("fn", 0, x, <<>>)

Big == 1073741824
IsNaN(v) == v.t = "real" /\ v.s = "nan"
IsNum(v) == v.t \in {"int", "real"}
\* twice the numeric value (so halves are integers); only meaningful for non-NaN numbers
Twice(v) ==
  CASE v.t = "int" -> (IF v.s = "max" THEN Big ELSE IF v.s = "min" THEN -Big ELSE 2 * v.i)
    [] v.t = "real" -> (CASE v.s = "+0" -> 0 [] v.s = "-0" -> 0 [] v.s = "0.5" -> 1 [] v.s = "-0.5" -> -1
                          [] v.s = "1.0" -> 2 [] v.s = "2.5" -> 5 [] v.s = "inf" -> Big + 1 [] v.s = "-inf" -> -(Big + 1)
                          [] OTHER -> 0)
    [] OTHER -> 0
LenOf(v) == CASE v.t = "str" -> v.i [] v.t = "tab" -> Len(v.e) [] OTHER -> 0
\* the number a value counts as when it meets a number in a comparison
AsNum(v) == CASE v.t = "nil" -> 0 [] v.t \in {"str", "tab", "fn"} -> 2 * LenOf(v) [] OTHER -> Twice(v)

Acyclic(v) == TRUE   \* terms are finite trees by construction

\* ---- equality -------------------------------------------------------------------
\* strict structural equality of terms, numbers by value; NaN equals nothing
RECURSIVE SameVal(_, _)
SameVal(a, b) ==
  CASE a.t # b.t -> FALSE
    [] a.t = "nil" -> TRUE
    [] a.t = "int" -> a.i = b.i /\ a.s = b.s
    [] a.t = "real" -> ~IsNaN(a) /\ ~IsNaN(b) /\ Twice(a) = Twice(b)
    [] a.t = "str" -> a.s = b.s
    [] a.t = "tab" -> Len(a.e) = Len(b.e)
                      /\ \A k \in 1..Len(a.e) : SameVal(a.e[k][1], b.e[k][1]) /\ SameVal(a.e[k][2], b.e[k][2])
    [] OTHER -> FALSE
\* the same entries in a different order, or tables containing function values / NaN: not specified
RECURSIVE HasOpaque(_)
HasOpaque(v) == v.t = "fn" \/ IsNaN(v)
                \/ (v.t = "tab" /\ \E k \in 1..Len(v.e) : HasOpaque(v.e[k][1]) \/ HasOpaque(v.e[k][2]))
SameEntrySet(a, b) == a.t = "tab" /\ b.t = "tab" /\ Len(a.e) = Len(b.e)
                      /\ \A k \in 1..Len(a.e) : \E j \in 1..Len(b.e) :
                            SameVal(a.e[k][1], b.e[j][1]) /\ SameVal(a.e[k][2], b.e[j][2])
EqAdm(a, b) ==
  IF a.t = "fn" \/ b.t = "fn" THEN BOOLEAN
  ELSE IF IsNaN(a) \/ IsNaN(b) THEN {FALSE}
  ELSE IF (a.t = "tab" /\ HasOpaque(a)) \/ (b.t = "tab" /\ HasOpaque(b)) THEN BOOLEAN
  ELSE IF SameVal(a, b) THEN {TRUE}
  ELSE IF SameEntrySet(a, b) THEN BOOLEAN
  ELSE {FALSE}

\* ---- hashing: equal values hash equally, signed zero excepted ----------------------
SignedZeroPair(a, b) == a.t = "real" /\ b.t = "real" /\ {a.s, b.s} = {"+0", "-0"}
HashMustAgree(a, b) == SameVal(a, b) /\ ~SignedZeroPair(a, b) /\ ~HasOpaque(a) /\ ~HasOpaque(b)

\* ---- ordering ---------------------------------------------------------------------
AllCmp == {"LT", "EQ", "GT", "NONE"}
NumCmp(x, y) == IF x < y THEN "LT" ELSE IF x > y THEN "GT" ELSE "EQ"
CmpBase(a, b) ==
  IF a.t = "fn" \/ b.t = "fn" \/ IsNaN(a) \/ IsNaN(b) THEN AllCmp
  ELSE IF IsNum(a) \/ IsNum(b) THEN
       \* a number is involved: numeric order, nil counts as 0, strings/tables as their length
       \* (the i64 bounds lose precision against reals; those pairs are not constrained)
       IF (a.s \in {"max", "min"} /\ a.t = "int" /\ b.t # "int") \/ (b.s \in {"max", "min"} /\ b.t = "int" /\ a.t # "int")
       THEN AllCmp ELSE {NumCmp(AsNum(a), AsNum(b))}
  ELSE IF a.t = b.t /\ a.t \in {"str", "tab"} THEN
       \* two strings / two tables: by length; equal length: never less or greater
       IF LenOf(a) # LenOf(b) THEN {NumCmp(LenOf(a), LenOf(b))} ELSE {"EQ", "NONE"}
  ELSE AllCmp      \* nil/nil, nil/object, string/table: not specified
\* whatever else holds, equal values are neither less nor greater
CmpAdm(a, b) == IF SameVal(a, b) THEN CmpBase(a, b) \ {"LT", "GT"} ELSE CmpBase(a, b)

TruthyAdm(v) ==
  CASE v.t = "nil" -> {FALSE}
    [] v.t = "int" -> {v.i # 0 \/ v.s # ""}
    [] v.t = "real" -> (IF IsNaN(v) THEN BOOLEAN ELSE {Twice(v) # 0})
    [] v.t \in {"str", "tab"} -> {LenOf(v) # 0}
    [] OTHER -> BOOLEAN

\* ---- the universe -----------------------------------------------------------------
T1 == T(<< <<I(0), I(1)>> >>)
U == << Nil,
        I(0), I(1), I(-1), I(2), I(3), IMax, IMin,
        R("+0"), R("-0"), R("1.0"), R("0.5"), R("-0.5"), R("2.5"), R("nan"), R("inf"), R("-inf"),
        S("", 0), S("a", 1), S("b", 1), S("ab", 2), S("key", 3),
        T(<<>>), T1, T(<< <<I(0), I(2)>> >>), T(<< <<I(1), I(1)>> >>),
        T(<< <<S("a", 1), I(1)>>, <<S("b", 1), I(2)>> >>), T(<< <<S("b", 1), I(2)>>, <<S("a", 1), I(1)>> >>),
        T(<< <<I(0), T1>> >>), T(<< <<I(0), T(<<>>)>> >>), T(<< <<T1, Nil>> >>),
        T(<< <<I(0), R("0.5")>>, <<I(1), S("ab", 2)>>, <<I(2), Nil>> >>),
        T(<< <<I(0), F("f")>> >>),
        TG(12, << <<S("a", 1), I(1)>>, <<S("b", 1), I(2)>> >>),
        TG(12, << <<I(0), R("0.5")>>, <<I(1), S("ab", 2)>>, <<I(2), Nil>> >>),
        TG(20, << <<T1, Nil>> >>),
        T(<< <<R("1.0"), I(5)>>, <<I(1), I(6)>>, <<R("2.5"), I(7)>> >>),     \* whole-number real keys are not integer keys
        F("f"), F("g") >>
NU == Len(U)

\* ---- model-level theorems: the explicit (singleton) part of the relations is coherent ---
Strict == {k \in 1..NU : ~HasOpaque(U[k])}
EqS(j, k) == SameVal(U[j], U[k])
TheoremEquivalence ==
  /\ \A j \in Strict : EqS(j, j)
  /\ \A j, k \in Strict : EqS(j, k) => EqS(k, j)
  /\ \A j, k, m \in Strict : (EqS(j, k) /\ EqS(k, m)) => EqS(j, m)
TheoremOrderCoherent ==
  \A j, k \in Strict :
     /\ EqS(j, k) => CmpAdm(U[j], U[k]) \cap {"LT", "GT"} = {}
     /\ (CmpAdm(U[j], U[k]) = {"LT"}) => (CmpAdm(U[k], U[j]) = {"GT"})
TheoremNumericTotal ==
  \A j, k \in Strict : (IsNum(U[j]) /\ IsNum(U[k]) /\ (U[j].t = U[k].t \/ (U[j].s \notin {"max", "min"} /\ U[k].s \notin {"max", "min"}))) =>
     (CmpAdm(U[j], U[k]) \subseteq {"LT", "EQ", "GT"} /\ Cardinality(CmpAdm(U[j], U[k])) = 1)

VARIABLE dummy
Init == dummy = 0
Next == UNCHANGED dummy
Spec == Init /\ [][Next]_dummy
Theorems == TheoremEquivalence /\ TheoremOrderCoherent /\ TheoremNumericTotal
=============================================================================
