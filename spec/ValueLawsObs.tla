----------------------------- MODULE ValueLawsObs -----------------------------
(* Binds ValueLaws to the implementation.                                     *)
(*  - `Universe` (printed once) is what the harness builds, twice, in a real  *)
(*    VM: instance A[j] and instance B[k] of every term are distinct objects. *)
(*  - The harness writes one record per ordered pair                          *)
(*      {a: j, b: k, eq, heq, cmp, ta, tb}    (1-based indices into U)        *)
(*    eq = (A[j] == B[k]), heq = equal hashes, cmp = partial_cmp,             *)
(*    ta/tb = truthiness.                                                     *)
(*  - TLC checks every entry against the admitted sets and then the laws      *)
(*    (symmetry, transitivity, hash consistency, asymmetry, equal => not      *)
(*    less/greater) on the OBSERVED relations over all pairs and triples.     *)
EXTENDS ValueLaws, Json, IOUtils

Universe == PrintT(<<"UNIVERSE", ToJson(U)>>)

Rec == ndJsonDeserialize(IOEnv.TRACE)
Obs == [p \in {<<Rec[n].a, Rec[n].b>> : n \in 1..Len(Rec)} |->
          LET n == CHOOSE n \in 1..Len(Rec) : Rec[n].a = p[1] /\ Rec[n].b = p[2] IN Rec[n]]
Pairs == (1..NU) \X (1..NU)
Bad(kind, j, k, m) == PrintT(<<"MISMATCH", ToJson([kind |-> kind, a |-> j, b |-> k, c |-> m,
                                                   va |-> U[j], vb |-> U[k],
                                                   got |-> Obs[<<j, k>>]])>>)
Check(cond, kind, j, k, m) == cond \/ Bad(kind, j, k, m)

Complete == Check(DOMAIN Obs = Pairs, "table-incomplete", 1, 1, 0)
EntryOK ==
  \A p \in Pairs : LET j == p[1]  k == p[2]  o == Obs[p] IN
     /\ Check(o.eq \in EqAdm(U[j], U[k]), "eq-not-admitted", j, k, 0)
     /\ Check(o.cmp \in CmpAdm(U[j], U[k]), "cmp-not-admitted", j, k, 0)
     /\ Check(HashMustAgree(U[j], U[k]) => o.heq, "equal-values-hash-differently", j, k, 0)
     /\ Check(o.ta \in TruthyAdm(U[j]), "truthiness", j, k, 0)
\* laws on the observed relations, restricted to the values the property speaks about
ObsEq(j, k) == Obs[<<j, k>>].eq
Lawful == {k \in 1..NU : ~HasOpaque(U[k])}
LawsOK ==
  /\ \A j \in Lawful : Check(ObsEq(j, j), "eq-not-reflexive", j, j, 0)
  /\ \A j, k \in Lawful : Check(ObsEq(j, k) = ObsEq(k, j), "eq-not-symmetric", j, k, 0)
  /\ \A j, k, m \in Lawful : Check((ObsEq(j, k) /\ ObsEq(k, m)) => ObsEq(j, m), "eq-not-transitive", j, k, m)
  /\ \A j, k \in Lawful : Check((ObsEq(j, k) /\ ~SignedZeroPair(U[j], U[k])) => Obs[<<j, k>>].heq, "eq-but-hash-differs", j, k, 0)
  /\ \A j, k \in Lawful : Check(ObsEq(j, k) => Obs[<<j, k>>].cmp \notin {"LT", "GT"}, "equal-but-ordered", j, k, 0)
  /\ \A j, k \in 1..NU : Check((Obs[<<j, k>>].cmp = "LT") = (Obs[<<k, j>>].cmp = "GT"), "order-not-asymmetric", j, k, 0)
  /\ \A j, k \in 1..NU : Check(Obs[<<j, k>>].ta = Obs[<<j, j>>].ta, "truthiness-not-a-function", j, k, 0)

ObsInv == Complete /\ EntryOK /\ LawsOK /\ PrintT(<<"TRACE-DONE", Len(Rec)>>)
=============================================================================
