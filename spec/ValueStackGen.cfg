CONSTANTS
  Caps = {1, 2, 3, 4}
  Vals = {"a", "b"}
  SimDepth = 0
SPECIFICATION GSpec
VIEW View
INVARIANT Emit
CHECK_DEADLOCK FALSE
