CONSTANTS
  Caps = {1, 2, 3, 4}
  Vals = {"a", "b"}
SPECIFICATION Spec
INVARIANTS TypeOK Bounded PushLaw PushSucceedsWithTwoFree Lifo PopEmptyNil PopNLaw ReadBeyondNil TruncateLaw
CHECK_DEADLOCK FALSE
