CONSTANTS
  Caps = {1}
  Vals = {"a", "b"}
SPECIFICATION TSpec
INVARIANTS Done Inv
CHECK_DEADLOCK FALSE
