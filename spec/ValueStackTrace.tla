--------------------------- MODULE ValueStackTrace ---------------------------
(* Trace validation (implementation -> specification) for ValueStack.        *)
(* The ndjson file named by the environment variable TRACE holds one record  *)
(* {case, op, ret, proj} per public call made by the harness driver; a case  *)
(* starts with op "reset" (i = capacity).  A record is accepted iff some     *)
(* outcome admitted by Step has the recorded return value and projection.    *)
(* A rejected record is reported and the rest of its case is skipped, so one *)
(* TLC run gives a verdict for every case in the file.                       *)
EXTENDS ValueStack, Json, IOUtils, TLC

Rec == ndJsonDeserialize(IOEnv.TRACE)
N == Len(Rec)

VARIABLE l
tvars == <<st, l>>

IsReset(k) == Rec[k].op.op = "reset"
NextReset(k) == IF \E j \in (k + 1)..N : IsReset(j)
                THEN CHOOSE j \in (k + 1)..N : IsReset(j) /\ \A m \in (k + 1)..(j - 1) : ~IsReset(m)
                ELSE N + 1

Matches(r) == {o \in Step(st, r.op) : o.ret = r.ret /\ Proj(o.st) = r.proj}

TInit == l = 1 /\ st = New(1)
TNext ==
  /\ l <= N
  /\ LET r == Rec[l] IN
       IF IsReset(l) THEN st' = New(r.op.i) /\ l' = l + 1
       ELSE IF Matches(r) # {} THEN (\E o \in Matches(r) : st' = o.st) /\ l' = l + 1
       ELSE /\ PrintT(<<"MISMATCH", ToJson([line |-> l, case |-> r.case, op |-> r.op, got |-> [ret |-> r.ret, proj |-> r.proj],
                                            state |-> st,
                                            allowed |-> {[ret |-> o.ret, proj |-> Proj(o.st)] : o \in Step(st, r.op)}])>>)
            /\ l' = NextReset(l) /\ st' = st
TSpec == TInit /\ [][TNext]_tvars

Done == (l = N + 1) => PrintT(<<"TRACE-DONE", N>>)
Inv == Bounded
=============================================================================
