-------------------------------- MODULE VmAlloc --------------------------------
(***************************************************************************)
(* Accounting of the interpreter's heap (property C05).                    *)
(*                                                                         *)
(* state: limit      configured memory limit                               *)
(*        allocated  what the allocator accounts for                       *)
(*        ledger     bag of outstanding charges (charge -> how many)       *)
(* events (hook verif-hooks, emitted inside the allocator / collector):    *)
(*   Alloc(charge, ok, live)  a request of `charge` bytes (size + align)   *)
(*   Dealloc(charge)          a block with that charge is released         *)
(*   GcEnd(live)              a collection finished; `live` = bytes        *)
(*                            reachable from the roots (independent count) *)
(*   Clear                    the VM was cleared                           *)
(***************************************************************************)
EXTENDS Integers, Sequences, FiniteSets

CONSTANTS Limits, Charges,   \* for the model-checking configuration
          Slack              \* bytes an instruction may hold in flight while it allocates

VARIABLE st
New(limit) == [limit |-> limit, allocated |-> 0, ledger |-> [c \in {} |-> 0]]

Count(s, c) == IF c \in DOMAIN s.ledger THEN s.ledger[c] ELSE 0
Plus(s, c) == [x \in (DOMAIN s.ledger) \cup {c} |-> Count(s, x) + (IF x = c THEN 1 ELSE 0)]
Minus(s, c) == [x \in {y \in DOMAIN s.ledger : y # c \/ s.ledger[y] > 1} |-> s.ledger[x] - (IF x = c THEN 1 ELSE 0)]

\* a successful allocation is charged and fits
AllocOk(s, c) == IF s.allocated + c <= s.limit THEN {[s EXCEPT !.allocated = s.allocated + c, !.ledger = Plus(s, c)]} ELSE {}
\* a refused allocation leaves the account unchanged and is only legitimate when the data the program
\* can still reach plus the request does not fit (live = -1: not measured)
AllocFail(s, c, live) == IF live >= 0 /\ live + c + Slack <= s.limit THEN {} ELSE {s}
\* only something that is outstanding can be released
Dealloc(s, c) == IF Count(s, c) > 0 THEN {[s EXCEPT !.allocated = s.allocated - c, !.ledger = Minus(s, c)]} ELSE {}
\* after a collection nothing unreachable is still accounted for (except what the operation that
\* triggered the collection has allocated but not yet linked: at most Slack bytes)
GcEnd(s, live) == IF live >= 0 /\ s.allocated > live + Slack THEN {} ELSE {s}
\* a cleared VM accounts for nothing
Clear(s) == IF s.allocated = 0 /\ DOMAIN s.ledger = {} THEN {s} ELSE {}

Init == st \in {New(l) : l \in Limits}
Next == \/ \E c \in Charges : st' \in AllocOk(st, c) \cup Dealloc(st, c)
        \/ \E c \in Charges : st' \in AllocFail(st, c, -1)
        \/ st' \in Clear(st)
Spec == Init /\ [][Next]_st

RECURSIVE SumBag(_, _)
SumBag(b, dom) == IF dom = {} THEN 0 ELSE LET c == CHOOSE c \in dom : TRUE IN c * b[c] + SumBag(b, dom \ {c})
LedgerSum == st.allocated = SumBag(st.ledger, DOMAIN st.ledger)
WithinLimit == st.allocated <= st.limit
=============================================================================
