----------------------------- MODULE VmAllocTrace -----------------------------
(* Trace validation for C05: allocator / collector events of real runs under   *)
(* swept memory limits.  {e:"Reset", limit} starts a case.  The counter the    *)
(* allocator reports with every event must equal the specification's.          *)
EXTENDS VmAlloc, Json, IOUtils, TLC
Rec == ndJsonDeserialize(IOEnv.TRACE)
N == Len(Rec)
VARIABLE l
tvars == <<st, l>>
IsReset(j) == Rec[j].e = "Reset"
NextReset(j) == IF \E q \in (j + 1)..N : IsReset(q)
                THEN CHOOSE q \in (j + 1)..N : IsReset(q) /\ \A r \in (j + 1)..(q - 1) : ~IsReset(r)
                ELSE N + 1
Succ(r) ==
  CASE r.e = "Alloc" -> {s \in (IF r.ok THEN AllocOk(st, r.charge) ELSE AllocFail(st, r.charge, r.live)) : s.allocated = r.allocated}
    [] r.e = "Dealloc" -> {s \in Dealloc(st, r.charge) : s.allocated = r.allocated}
    [] r.e = "GcEnd" -> {s \in GcEnd(st, r.live) : s.allocated = r.allocated}
    [] r.e = "Clear" -> {s \in Clear(st) : r.allocated = 0}
    [] r.e \in {"GcBegin", "Note", "RunEnd"} -> {st}
    [] OTHER -> {}
TInit == l = 1 /\ st = New(0)
TNext ==
  /\ l <= N
  /\ LET r == Rec[l] IN
       IF IsReset(l) THEN st' = New(r.limit) /\ l' = l + 1
       ELSE IF Succ(r) # {} THEN st' \in Succ(r) /\ l' = l + 1
       ELSE /\ PrintT(<<"MISMATCH", ToJson([line |-> l, event |-> r, state |-> [limit |-> st.limit, allocated |-> st.allocated]])>>)
            /\ l' = NextReset(l) /\ st' = st
TSpec == TInit /\ [][TNext]_tvars
Done == (l = N + 1) => PrintT(<<"TRACE-DONE", N>>)
Inv == WithinLimit
=============================================================================
