------------------------------- MODULE VmBudget -------------------------------
(***************************************************************************)
(* The instruction budget of a run (property C03).                         *)
(*                                                                         *)
(* One counter per run, shared by every nesting level of the interpreter   *)
(* loop: the top-level run and every script function that a host / native  *)
(* function calls back into (depth 2, 3, ...).                             *)
(*   RunStart(N)   a run begins with budget N                              *)
(*   Exec(d, c)    c instructions are executed at nesting depth d          *)
(*   Reenter / ReenterEnd   a host function calls into the interpreter     *)
(*   RunEnd(out)   the run ends: "Ok", "Timeout" or another error          *)
(***************************************************************************)
EXTENDS Naturals, Sequences, FiniteSets

CONSTANTS MaxBudget, MaxDepth

VARIABLES st     \* [phase, max, used, depth]

New == [phase |-> "idle", max |-> 0, used |-> 0, depth |-> 0]

RunStart(s, n) == IF s.phase # "idle" THEN {} ELSE {[phase |-> "running", max |-> n, used |-> 0, depth |-> 1]}
\* instructions are only executed while budget is left: at most `max` per run, over all depths
Exec(s, d, c) == IF s.phase = "running" /\ d = s.depth /\ s.used + c <= s.max THEN {[s EXCEPT !.used = s.used + c]} ELSE {}
Reenter(s) == IF s.phase = "running" THEN {[s EXCEPT !.depth = s.depth + 1]} ELSE {}
ReenterEnd(s) == IF s.phase = "running" /\ s.depth > 1 THEN {[s EXCEPT !.depth = s.depth - 1]} ELSE {}
\* Timeout is reported only by a run that has used up its budget (one instruction of slack: whether
\* the N-th instruction itself still executes is not specified)
RunEnd(s, out) == IF s.phase # "running" THEN {}
                  ELSE IF out = "Timeout" /\ s.used + 1 < s.max THEN {}
                  ELSE {[s EXCEPT !.phase = "idle", !.depth = 0]}

Init == st = New
Next == \/ \E n \in 0..MaxBudget : st' \in RunStart(st, n)
        \/ \E d \in 1..MaxDepth : st' \in Exec(st, d, 1)
        \/ (st.depth < MaxDepth /\ st' \in Reenter(st))
        \/ st' \in ReenterEnd(st)
        \/ \E out \in {"Ok", "Timeout", "Err"} : st' \in RunEnd(st, out)
Spec == Init /\ [][Next]_st /\ WF_st(Next)

BudgetRespected == st.used <= st.max
\* the counter never decreases and is not reset by re-entry
Monotone == [][st.phase = "running" /\ st'.phase = "running" => st'.used >= st.used]_st
\* with a finite budget only finitely many instructions can be executed: a run that keeps executing ends
ExecBounded == st.phase = "running" => st.max - st.used >= 0
=============================================================================
