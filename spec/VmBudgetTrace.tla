---------------------------- MODULE VmBudgetTrace ----------------------------
(* Trace validation for C03.  Per program the harness records a reference run *)
(* with a huge budget (which defines k, the instructions the program needs,   *)
(* and its observation digest) followed by runs with swept budgets N.         *)
(*   {e:"Reset", case}  {e:"RunStart", n}  {e:"Exec", d, c}  {e:"Reenter"}    *)
(*   {e:"ReenterEnd"}   {e:"RunEnd", out, digest}                             *)
EXTENDS VmBudget, Json, IOUtils, TLC

Rec == ndJsonDeserialize(IOEnv.TRACE)
N == Len(Rec)
VARIABLES l, ref      \* ref = [has, k, digest] of the reference run of the current case
tvars == <<st, l, ref>>
NoRef == [has |-> FALSE, k |-> 0, digest |-> ""]

IsReset(j) == Rec[j].e = "Reset"
NextReset(j) == IF \E q \in (j + 1)..N : IsReset(q)
                THEN CHOOSE q \in (j + 1)..N : IsReset(q) /\ \A r \in (j + 1)..(q - 1) : ~IsReset(r)
                ELSE N + 1

\* admitted successor states of one event
Succ(r) ==
  CASE r.e = "RunStart" -> RunStart(st, r.n)
    [] r.e = "Exec" -> Exec(st, r.d, r.c)
    [] r.e = "Reenter" -> Reenter(st)
    [] r.e = "ReenterEnd" -> ReenterEnd(st)
    [] r.e = "RunEnd" ->
         {s \in RunEnd(st, r.out) :
            \/ ~ref.has                                   \* this is the reference run
            \* a program that needs fewer than N instructions is unaffected by the budget
            \/ /\ (st.max > ref.k) => (r.out # "Timeout" /\ r.digest = ref.digest)
               \* a program that needs more than N cannot have finished
               /\ (st.max < ref.k) => r.out = "Timeout"}
    [] r.e = "Note" -> {st}
    [] OTHER -> {}

TInit == l = 1 /\ st = New /\ ref = NoRef
TNext ==
  /\ l <= N
  /\ LET r == Rec[l] IN
       IF IsReset(l) THEN st' = New /\ ref' = NoRef /\ l' = l + 1
       ELSE IF Succ(r) # {} THEN
            /\ st' \in Succ(r) /\ l' = l + 1
            /\ ref' = IF r.e = "RunEnd" /\ ~ref.has THEN [has |-> TRUE, k |-> st.used, digest |-> r.digest] ELSE ref
       ELSE /\ PrintT(<<"MISMATCH", ToJson([line |-> l, event |-> r, state |-> st, ref |-> ref])>>)
            /\ l' = NextReset(l) /\ st' = st /\ ref' = ref
TSpec == TInit /\ [][TNext]_tvars
Done == (l = N + 1) => PrintT(<<"TRACE-DONE", N>>)
Inv == BudgetRespected
=============================================================================
