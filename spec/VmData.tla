------------------------------- MODULE VmData -------------------------------
(***************************************************************************)
(* The data side of the bytecode interpreter: what every instruction does  *)
(* to the CONTENTS of the value stack and to the global variables.         *)
(* VmInstr fixes the three counters (instruction pointer, stack height,    *)
(* call frames); this module fixes the values.                             *)
(*                                                                         *)
(* A value is a record [t, v, x]:                                          *)
(*   t = "n" nil | "i" integer below 2^30 in magnitude (v)                 *)
(*     | "I" any other integer (x = decimal text)                          *)
(*     | "r" real (x = bits, v = 0 for +0.0 / -0.0, else 1)                *)
(*     | "o" heap object (v = identity)                                    *)
(* A pattern is a sequence of values and wildcards; a wildcard is a record *)
(* whose t begins with "?" : "?" anything, "?o" an object, "?r" a real,    *)
(* "?i" an integer, "?b" the integer 0 or 1.                               *)
(*                                                                         *)
(* Expected(A, S, G, F, nip, nc) = the set of patterns admitted for the    *)
(* value stack found by the next instruction of the same interpreter loop, *)
(* when instruction A (operands decoded by the harness; imm = immediate    *)
(* value, g = global id) started with stack S, known globals G (a function *)
(* from ids to values, only the ids written so far in this run), frames F; *)
(* nip / nc = instruction pointer and number of call frames of that next   *)
(* record (they select the branch taken and script / host callee).         *)
(*                                                                         *)
(* Where the result depends on something this model does not follow (heap  *)
(* objects' contents, reals' arithmetic, captured variables, what a host   *)
(* function returns) the pattern has a wildcard of the right kind.         *)
(***************************************************************************)
EXTENDS Integers, Sequences, FiniteSets

Nil == [t |-> "n", v |-> 0, x |-> ""]
IntV(k) == [t |-> "i", v |-> k, x |-> ""]
W(k) == [t |-> k, v |-> 0, x |-> ""]
Any == W("?")
Bool == W("?b")
B(c) == IF c THEN IntV(1) ELSE IntV(0)

Small == 16384                       \* operands below this magnitude: the product still fits TLC's integers
IsSmall(a) == a.t = "i" /\ a.v < Small /\ a.v > -Small
IsInt(a) == a.t \in {"i", "I"}
IsNum(a) == a.t \in {"i", "I", "r"}
Known(a) == a.t \in {"n", "i", "I", "r"}                 \* truthiness does not depend on the heap
Truthy(a) == CASE a.t = "n" -> FALSE [] a.t = "i" -> a.v # 0 [] a.t = "I" -> TRUE [] a.t = "r" -> a.v = 1 [] OTHER -> TRUE

MatchV(p, a) == CASE p.t = "?" -> TRUE
                  [] p.t = "?o" -> a.t = "o"
                  [] p.t = "?r" -> a.t = "r"
                  [] p.t = "?i" -> IsInt(a)
                  [] p.t = "?b" -> a = IntV(0) \/ a = IntV(1)
                  [] OTHER -> p = a
Like(P, S2) == Len(P) = Len(S2) /\ \A j \in 1..Len(P) : MatchV(P[j], S2[j])

MaxD(a, b) == IF a > b THEN a ELSE b
MinD(a, b) == IF a < b THEN a ELSE b
Pre(S, k) == SubSeq(S, 1, MaxD(Len(S) - k, 0))
TopN(S, j) == IF Len(S) >= j THEN S[Len(S) - j + 1] ELSE Nil      \* j-th value from the top; nil below the bottom

\* a write to absolute slot idx: overwrite below the height, push at the height (beyond: the instruction fails)
Write(S, idx, val) == IF idx < Len(S) THEN [S EXCEPT ![idx + 1] = val] ELSE IF idx = Len(S) THEN Append(S, val) ELSE S
RECURSIVE Writes(_, _)
Writes(S, ws) == IF ws = <<>> THEN S ELSE Writes(Write(S, Head(ws)[1], Head(ws)[2]), Tail(ws))

Arith(op, a, b) ==
  IF IsSmall(a) /\ IsSmall(b) /\ op \in {"Add", "Sub", "Mul"}
  THEN IntV(CASE op = "Add" -> a.v + b.v [] op = "Sub" -> a.v - b.v [] OTHER -> a.v * b.v)
  ELSE IF op = "Div" THEN (IF IsNum(a) /\ IsNum(b) THEN W("?r") ELSE Any)
  ELSE IF IsInt(a) /\ IsInt(b) THEN W("?i")
  ELSE IF (a.t = "r" /\ (IsNum(b) \/ b.t = "n")) \/ (b.t = "r" /\ (IsNum(a) \/ a.t = "n")) THEN W("?r")
  ELSE Any
\* equality without coercion on nil and integers; everything else (reals: NaN, signed zero; objects: contents) is a 0/1
EqV(a, b) == IF a.t \in {"n", "i", "I"} /\ b.t \in {"n", "i", "I"} THEN B(a = b) ELSE Bool
Cmp(op, a, b) ==
  CASE op = "Equals" -> EqV(a, b)
    [] op = "NotEquals" -> (LET e == EqV(a, b) IN IF e = Bool THEN Bool ELSE B(e = IntV(0)))
    [] op = "Less" -> IF a.t = "i" /\ b.t = "i" THEN B(a.v < b.v) ELSE Bool
    [] op = "LessOrEq" -> IF a.t = "i" /\ b.t = "i" THEN B(a.v <= b.v) ELSE Bool
Logic(op, a, b) ==
  IF Known(a) /\ Known(b)
  THEN B(CASE op = "And" -> Truthy(a) /\ Truthy(b) [] op = "Or" -> Truthy(a) \/ Truthy(b) [] OTHER -> Truthy(a) # Truthy(b))
  ELSE Bool

Allocs == {"StringLiteral", "InitTable", "FunctionPointer", "NativeFunctionPointer", "Closure"}
AllAny(n) == [j \in 1..n |-> Any]

Expected(A, S, G, F, nip, nc) ==
  LET h == Len(S)  off == F[Len(F)].off  nxt == A.ip + A.n  a == TopN(S, 2)  b == TopN(S, 1) IN
  CASE A.op = "ScalarNil" -> {Append(S, Nil)}
    [] A.op \in {"ScalarInt", "ScalarFloat"} -> {Append(S, A.imm)}
    [] A.op = "CopyLast" -> {Append(S, b)}
    [] A.op = "ReadLocalVar" -> {Append(S, IF off + A.a[1] < h THEN S[off + A.a[1] + 1] ELSE Nil)}
    [] A.op = "ReadGlobalVar" -> {Append(S, IF A.g \in DOMAIN G THEN G[A.g] ELSE Any)}
    [] A.op \in Allocs -> {Append(S, W("?o"))}
    [] A.op = "ReadUpvalue" -> {Append(S, Any)}
    [] A.op \in {"Add", "Sub", "Mul", "Div"} -> {Append(Pre(S, 2), Arith(A.op, a, b))}
    [] A.op \in {"Equals", "NotEquals", "Less", "LessOrEq"} -> {Append(Pre(S, 2), Cmp(A.op, a, b))}
    [] A.op \in {"And", "Or", "Xor"} -> {Append(Pre(S, 2), Logic(A.op, a, b))}
    [] A.op = "GetProperty" -> {Append(Pre(S, 2), Any)}
    [] A.op = "NthRow" -> {Append(Pre(S, 2), W("?o"))}
    [] A.op = "Not" -> {Append(Pre(S, 1), IF Known(b) THEN B(~Truthy(b)) ELSE Bool)}
    [] A.op = "Len" -> {Append(Pre(S, 1), W("?i"))}
    [] A.op = "PopTable" -> {Append(Pre(S, 1), Any)}
    [] A.op \in {"Pop", "SetGlobalVar", "RegisterUpvalue", "CloseUpvalue"} -> {Pre(S, 1)}
    [] A.op = "SetUpvalue" ->     \* the captured variable may still live in a stack slot (of any frame)
         {Pre(S, 1)} \cup {[Pre(S, 1) EXCEPT ![j] = b] : j \in 1..Len(Pre(S, 1))}
    [] A.op = "AppendTable" -> {Pre(S, 2)}
    [] A.op = "SetProperty" -> {Pre(S, 3)}
    [] A.op = "SwapLast" -> {Pre(S, 2) \o <<b, a>>}
    [] A.op = "Goto" -> {S}
    [] A.op \in {"GotoIfTrue", "GotoIfFalse"} ->
         \* the branch taken follows the truthiness of the popped value (when it does not depend on the heap)
         IF Known(b) /\ nip # (IF Truthy(b) = (A.op = "GotoIfTrue") THEN A.a[1] ELSE nxt) THEN {} ELSE {Pre(S, 1)}
    [] A.op = "ClearStack" -> {SubSeq(S, 1, MinD(off, h))}
    [] A.op = "SetLocalVar" ->
         LET val == IF h > off THEN b ELSE Nil
             S1 == IF h > off THEN Pre(S, 1) ELSE S
         IN {Write(S1, off + A.a[1], val)}
    [] A.op = "BeginForEach" ->   \* the table stays on the stack; counter, table, then value, key, index of the body
         {Writes(S, <<<<off + A.a[1], IntV(0)>>, <<off + A.a[2], b>>, <<off + A.a[5], Nil>>, <<off + A.a[4], Nil>>, <<off + A.a[3], Nil>>>>)}
    [] A.op = "ForEach" ->
         LET i == IF off + A.a[1] < h THEN S[off + A.a[1] + 1] ELSE Nil
             nx == IF i.t = "i" /\ i.v < Small THEN IntV(i.v + 1) ELSE W("?i")
         IN {Append(S, IntV(0)),
             Append(Writes(S, <<<<off + A.a[5], Any>>, <<off + A.a[4], Any>>, <<off + A.a[3], i>>, <<off + A.a[1], nx>>>>), IntV(1))}
    [] A.op = "CallNative" ->
         \* a host function takes its parameters and leaves one result.  It cannot touch the rest of the stack, except
         \* that a script function it calls back may assign a captured variable that still lives there (A.uv)
         LET ks == IF A.a[1] >= 0 THEN {A.a[1]} ELSE 0..h IN
         {Append(IF A.uv THEN AllAny(Len(Pre(S, k))) ELSE Pre(S, k), Any) : k \in ks}
    [] A.op = "CallFunction" ->
         IF nc > Len(F) THEN {Pre(S, 1)}                        \* a script function or closure: only the function value is taken
         ELSE {Append(IF A.uv THEN AllAny(Len(Pre(S, k))) ELSE Pre(S, k), Any) : k \in 1..MaxD(h, 1)}   \* a native function value
    [] A.op = "Return" ->
         \* everything of the returning frame goes; the value on top becomes the result
         {Append(SubSeq(S, 1, MinD(off, h)), IF h > off THEN b ELSE Any)}
    [] OTHER -> {}

\* globals known after A (this run)
GlobalsAfter(A, S, G) ==
  IF A.op = "SetGlobalVar" THEN [k \in DOMAIN G \cup {A.g} |-> IF k = A.g THEN TopN(S, 1) ELSE G[k]] ELSE G

\* no instruction changes a value below the frame of the function that executes it, except by assigning a captured
\* variable; a host call is judged by its own clause
Isolated(A, S, S2, F) ==
  LET off == F[Len(F)].off IN
  A.op \in {"SetUpvalue", "CallNative", "CallFunction"} \/ (Len(S2) >= MinD(off, Len(S)) /\ SubSeq(S2, 1, MinD(off, Len(S))) = SubSeq(S, 1, MinD(off, Len(S))))

\* ---- a small closed model for TLC: straight-line integer programs; the patterns are consistent (one pattern, no wildcard)
CONSTANT DMax
VARIABLES st, gl
dvars == <<st, gl>>
F0 == <<[off |-> 0, ret |-> 0]>>
DOps == {"ScalarNil", "ScalarInt", "CopyLast", "Add", "Sub", "Mul", "Less", "Equals", "Not", "And", "Pop", "SwapLast", "SetLocalVar",
         "ReadLocalVar", "SetGlobalVar", "ReadGlobalVar"}
DInit == st = <<>> /\ gl = <<>>
DNext == \E op \in DOps, k \in 0..2 :
           LET A == [ip |-> 0, n |-> 1, op |-> op, a |-> <<k>>, imm |-> IntV(k), g |-> k + 1, uv |-> FALSE]
               E == Expected(A, st, gl, F0, 1, 1) IN
           \E P \in E : /\ Len(P) <= DMax /\ \A j \in 1..Len(P) : P[j].t \in {"n", "i"} /\ (P[j].t = "i" => P[j].v \in -3..3)
                        /\ st' = P /\ gl' = GlobalsAfter(A, st, gl)
DSpec == DInit /\ [][DNext]_dvars
\* every instruction of this fragment is deterministic: exactly one pattern (written ones: no wildcards), and a value read back
\* from a global is the value last stored there
Deterministic == \A op \in DOps, k \in 0..2 :
   Cardinality(Expected([ip |-> 0, n |-> 1, op |-> op, a |-> <<k>>, imm |-> IntV(k), g |-> k + 1, uv |-> FALSE], st, gl, F0, 1, 1)) = 1
GlobalsKnown == \A k \in DOMAIN gl : gl[k].t \in {"n", "i"}
=============================================================================
