-------------------------------- MODULE VmHeap --------------------------------
(***************************************************************************)
(* The rooting discipline of the interpreter's mark-sweep collector        *)
(* (property C02), as an abstract heap machine.                            *)
(*                                                                         *)
(* Objects have outgoing references (table entries, closure -> upvalues,   *)
(* upvalue -> captured value).  The program can reach an object from       *)
(*   stack     the value stack                                             *)
(*   globals   global variables                                            *)
(*   frames    the closure each active call frame is executing             *)
(*   upvals    the list of open upvalues                                   *)
(*   guards    objects held by an ObjectGcGuard (under construction)       *)
(*   inflight  operands the executing instruction / host function has      *)
(*             taken off the stack but not stored yet                      *)
(* An instruction that allocates is several steps: take operands in flight,*)
(* allocate (a collection may run inside ANY allocation), store, finish.   *)
(* RootSets says which of the six sets the collector treats as roots; the  *)
(* specified discipline is all six.  With a set left out TLC produces the  *)
(* counterexample (used as a sensitivity check of the model).              *)
(***************************************************************************)
EXTENDS Naturals, FiniteSets

CONSTANTS Objs,        \* object identities
          RootSets     \* subset of {"stack","globals","frames","upvals","guards","inflight"} the collector marks from

VARIABLES live, edges, stack, globals, frames, upvals, guards, inflight
vars == <<live, edges, stack, globals, frames, upvals, guards, inflight>>

AllSets == [stack |-> stack, globals |-> globals, frames |-> frames, upvals |-> upvals, guards |-> guards, inflight |-> inflight]
\* everything the running program can still use
Holds == stack \cup globals \cup frames \cup upvals \cup guards \cup inflight
\* what the collector starts from
GcRoots == UNION {AllSets[n] : n \in RootSets}

RECURSIVE ReachFrom(_, _)
ReachFrom(S, seen) == LET new == {y \in Objs : \E x \in S : <<x, y>> \in edges} \ (seen \cup S) IN
                      IF new = {} THEN seen \cup S ELSE ReachFrom(new, seen \cup S)
Reach(S) == ReachFrom(S, {})

Init == /\ live = {} /\ edges = {} /\ stack = {} /\ globals = {} /\ frames = {} /\ upvals = {} /\ guards = {} /\ inflight = {}

\* a collection frees exactly what is not reachable from the collector's roots
Collect == /\ live' = live \cap Reach(GcRoots)
           /\ edges' = {e \in edges : e[1] \in live'}
           /\ UNCHANGED <<stack, globals, frames, upvals, guards, inflight>>
\* allocation of a new object: it is guarded until the instruction has stored it
Alloc(o) == /\ o \notin live /\ o \notin Holds
            /\ live' = live \cup {o} /\ guards' = guards \cup {o}
            /\ UNCHANGED <<edges, stack, globals, frames, upvals, inflight>>
\* the guarded object is pushed / stored and the guard released
Publish(o) == /\ o \in guards
              /\ guards' = guards \ {o} /\ stack' = stack \cup {o}
              /\ UNCHANGED <<live, edges, globals, frames, upvals, inflight>>
\* an instruction takes an operand off the stack
Take(o) == /\ o \in stack /\ stack' = stack \ {o} /\ inflight' = inflight \cup {o}
           /\ UNCHANGED <<live, edges, globals, frames, upvals, guards>>
\* ... stores it into a table / closure that is itself in flight, on the stack or guarded
Store(o, t) == /\ o \in inflight /\ t \in (inflight \cup stack \cup guards) /\ t \in live
               /\ edges' = edges \cup {<<t, o>>}
               /\ UNCHANGED <<live, stack, globals, frames, upvals, guards, inflight>>
\* ... and is done with it (it was consumed, pushed back, or dropped)
Finish(o, keep) == /\ o \in inflight /\ inflight' = inflight \ {o}
                   /\ stack' = IF keep THEN stack \cup {o} ELSE stack
                   /\ UNCHANGED <<live, edges, globals, frames, upvals, guards>>
SetGlobal(o) == /\ o \in stack /\ globals' = globals \cup {o}
                /\ UNCHANGED <<live, edges, stack, frames, upvals, guards, inflight>>
DropGlobal(o) == /\ o \in globals /\ globals' = globals \ {o}
                 /\ UNCHANGED <<live, edges, stack, frames, upvals, guards, inflight>>
\* calling a closure: the value leaves the stack, the frame executes it; returning drops the frame
Call(o) == /\ o \in stack /\ stack' = stack \ {o} /\ frames' = frames \cup {o}
           /\ UNCHANGED <<live, edges, globals, upvals, guards, inflight>>
Return(o) == /\ o \in frames /\ frames' = frames \ {o}
             /\ UNCHANGED <<live, edges, stack, globals, upvals, guards, inflight>>
\* capturing a variable opens an upvalue referenced by a closure; closing removes it from the list
OpenUpvalue(u, c) == /\ u \in stack /\ c \in stack /\ u # c
                     /\ stack' = stack \ {u} /\ upvals' = upvals \cup {u} /\ edges' = edges \cup {<<c, u>>}
                     /\ UNCHANGED <<live, globals, frames, guards, inflight>>
CloseUpvalue(u) == /\ u \in upvals /\ upvals' = upvals \ {u}
                   /\ UNCHANGED <<live, edges, stack, globals, frames, guards, inflight>>
Pop(o) == /\ o \in stack /\ stack' = stack \ {o}
          /\ UNCHANGED <<live, edges, globals, frames, upvals, guards, inflight>>

Next == \/ Collect
        \/ \E o \in Objs : Alloc(o) \/ Publish(o) \/ Take(o) \/ SetGlobal(o) \/ DropGlobal(o) \/ Call(o) \/ Return(o)
                            \/ CloseUpvalue(o) \/ Pop(o) \/ Finish(o, TRUE) \/ Finish(o, FALSE)
        \/ \E o, t \in Objs : Store(o, t) \/ OpenUpvalue(o, t)
Spec == Init /\ [][Next]_vars

\* ---- C02: nothing the program can still reach is ever freed ----------------------------------
NoDangling == Reach(Holds) \subseteq live
\* a collection frees only objects that are unreachable for the program
CollectFreesOnlyGarbage == [][(live' # live /\ live' \subseteq live) => (live \ live') \cap Reach(Holds) = {}]_vars
\* and it frees all of them (garbage is reclaimed)
CollectFreesAllGarbage == [][(UNCHANGED <<stack, globals, frames, upvals, guards, inflight>> /\ live' \subseteq live /\ GcRoots = Holds)
                              => (live' = live \/ live' = live \cap Reach(Holds))]_vars
=============================================================================
