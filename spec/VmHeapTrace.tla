----------------------------- MODULE VmHeapTrace -----------------------------
(***************************************************************************)
(* Binds the Collect action of VmHeap to the real collector (C02).         *)
(*                                                                         *)
(* With the verif-hooks feature the collector records, at the start of a   *)
(* collection, the heap as it finds it - the root categories (value stack, *)
(* globals, closures of active call frames, open upvalues, guarded         *)
(* objects) and the object graph - and then one event per object it frees. *)
(* (Operands in flight are on the stack at that point: instructions read   *)
(* them in place and pop them when they are done.)                         *)
(*   {e:"Snapshot", stack, globals, frames, upvals, guards,                *)
(*                  objects: <<[id, edges]>>}                              *)
(*   {e:"Free", id}      {e:"GcEnd"}       {e:"Reset"} between runs        *)
(*   {e:"Quiesce"}  the run is over and the host holds no guard: in the    *)
(*                  collection that follows nothing may count as guarded   *)
(*                  (an object that keeps its guard mark after its guard   *)
(*                  is gone is never reclaimed again)                      *)
(* The specification's Collect frees exactly the objects that are not      *)
(* reachable from the union of the root categories:                        *)
(*   - a Free of a reachable object is rejected (nothing the program can   *)
(*     still use is freed);                                                *)
(*   - at GcEnd every unreachable object must have been freed (garbage is  *)
(*     reclaimed).                                                         *)
(***************************************************************************)
EXTENDS Naturals, Sequences, FiniteSets, Json, IOUtils, TLC

Rec == ndJsonDeserialize(IOEnv.TRACE)
N == Len(Rec)

VARIABLES l, live, reach, phase, quiet
vars == <<l, live, reach, phase, quiet>>

SeqSet(s) == {s[j] : j \in 1..Len(s)}
Holds(r) == SeqSet(r.stack) \cup SeqSet(r.globals) \cup SeqSet(r.frames) \cup SeqSet(r.upvals) \cup SeqSet(r.guards)
Succs(r, S) == UNION {SeqSet(r.objects[j].edges) : j \in {j \in 1..Len(r.objects) : r.objects[j].id \in S}}
RECURSIVE ReachFrom(_, _, _)
ReachFrom(r, S, seen) == LET new == Succs(r, S) \ (seen \cup S) IN
                         IF new = {} THEN seen \cup S ELSE ReachFrom(r, new, seen \cup S)

IsReset(j) == Rec[j].e = "Reset"
NextReset(j) == IF \E q \in (j + 1)..N : IsReset(q)
                THEN CHOOSE q \in (j + 1)..N : IsReset(q) /\ \A x \in (j + 1)..(q - 1) : ~IsReset(x)
                ELSE N + 1
Reject(why) == /\ PrintT(<<"MISMATCH", ToJson([line |-> l, why |-> why, event |-> [e |-> Rec[l].e, id |-> IF Rec[l].e = "Free" THEN Rec[l].id ELSE 0],
                                              unreachable_left |-> IF Rec[l].e = "GcEnd" THEN live \ reach ELSE {}])>>)
               /\ l' = NextReset(l) /\ live' = {} /\ reach' = {} /\ phase' = "idle" /\ quiet' = FALSE

Init == l = 1 /\ live = {} /\ reach = {} /\ phase = "idle" /\ quiet = FALSE
Next ==
  /\ l <= N
  /\ LET r == Rec[l] IN
     CASE r.e = "Reset" -> l' = l + 1 /\ live' = {} /\ reach' = {} /\ phase' = "idle" /\ quiet' = FALSE
       [] r.e = "Quiesce" -> l' = l + 1 /\ quiet' = TRUE /\ UNCHANGED <<live, reach, phase>>
       [] r.e = "Snapshot" /\ quiet /\ r.guards # <<>> ->
            Reject("an object still counts as guarded although no guard exists any more")
       [] r.e = "Snapshot" ->
            /\ l' = l + 1 /\ phase' = "collecting" /\ UNCHANGED quiet
            /\ live' = {r.objects[j].id : j \in 1..Len(r.objects)}
            /\ reach' = ReachFrom(r, Holds(r), {})
       [] r.e = "Free" ->
            IF phase # "collecting" \/ r.id \notin live THEN Reject("free outside a collection / of an unknown object")
            ELSE IF r.id \in reach THEN Reject("an object the program can still reach was freed")
            ELSE l' = l + 1 /\ live' = live \ {r.id} /\ UNCHANGED <<reach, phase, quiet>>
       [] r.e = "GcEnd" ->
            IF phase = "collecting" /\ ~(live \subseteq reach) THEN Reject("unreachable objects survived the collection")
            ELSE l' = l + 1 /\ phase' = "idle" /\ quiet' = FALSE /\ UNCHANGED <<live, reach>>
       [] OTHER -> l' = l + 1 /\ UNCHANGED <<live, reach, phase, quiet>>
Spec == Init /\ [][Next]_vars
AllDone == (l = N + 1) => PrintT(<<"TRACE-DONE", N>>)
\* while a collection is in progress the live set only shrinks and never loses a reachable object
Safe == phase = "collecting" => reach \subseteq (live \cup reach)
=============================================================================
