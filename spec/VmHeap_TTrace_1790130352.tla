---- MODULE VmHeap_TTrace_1790130352 ----
EXTENDS VmHeap_TEConstants, VmHeap, Sequences, TLCExt, Toolbox, Naturals, TLC

_expression ==
    LET VmHeap_TEExpression == INSTANCE VmHeap_TEExpression
    IN VmHeap_TEExpression!expression
----

_trace ==
    LET VmHeap_TETrace == INSTANCE VmHeap_TETrace
    IN VmHeap_TETrace!trace
----

_inv ==
    ~(
        TLCGet("level") = Len(_TETrace)
        /\
        stack = ({})
        /\
        frames = ({})
        /\
        upvals = ({})
        /\
        globals = ({})
        /\
        edges = ({})
        /\
        live = ({o3})
        /\
        inflight = ({o1})
        /\
        guards = ({o3})
    )
----

_init ==
    /\ inflight = _TETrace[1].inflight
    /\ globals = _TETrace[1].globals
    /\ live = _TETrace[1].live
    /\ stack = _TETrace[1].stack
    /\ frames = _TETrace[1].frames
    /\ edges = _TETrace[1].edges
    /\ guards = _TETrace[1].guards
    /\ upvals = _TETrace[1].upvals
----

_next ==
    /\ \E i,j \in DOMAIN _TETrace:
        /\ \/ /\ j = i + 1
              /\ i = TLCGet("level")
        /\ inflight  = _TETrace[i].inflight
        /\ inflight' = _TETrace[j].inflight
        /\ globals  = _TETrace[i].globals
        /\ globals' = _TETrace[j].globals
        /\ live  = _TETrace[i].live
        /\ live' = _TETrace[j].live
        /\ stack  = _TETrace[i].stack
        /\ stack' = _TETrace[j].stack
        /\ frames  = _TETrace[i].frames
        /\ frames' = _TETrace[j].frames
        /\ edges  = _TETrace[i].edges
        /\ edges' = _TETrace[j].edges
        /\ guards  = _TETrace[i].guards
        /\ guards' = _TETrace[j].guards
        /\ upvals  = _TETrace[i].upvals
        /\ upvals' = _TETrace[j].upvals

\* Uncomment the ASSUME below to write the states of the error trace
\* to the given file in Json format. Note that you can pass any tuple
\* to `JsonSerialize`. For example, a sub-sequence of _TETrace.
    \* ASSUME
    \*     LET J == INSTANCE Json
    \*         IN J!JsonSerialize("VmHeap_TTrace_1790130352.json", _TETrace)

=============================================================================

 Note that you can extract this module `VmHeap_TEExpression`
  to a dedicated file to reuse `expression` (the module in the 
  dedicated `VmHeap_TEExpression.tla` file takes precedence 
  over the module `VmHeap_TEExpression` below).

---- MODULE VmHeap_TEExpression ----
EXTENDS VmHeap_TEConstants, VmHeap, Sequences, TLCExt, Toolbox, Naturals, TLC

expression == 
    [
        \* To hide variables of the `VmHeap` spec from the error trace,
        \* remove the variables below.  The trace will be written in the order
        \* of the fields of this record.
        inflight |-> inflight
        ,globals |-> globals
        ,live |-> live
        ,stack |-> stack
        ,frames |-> frames
        ,edges |-> edges
        ,guards |-> guards
        ,upvals |-> upvals
        
        \* Put additional constant-, state-, and action-level expressions here:
        \* ,_stateNumber |-> _TEPosition
        \* ,_inflightUnchanged |-> inflight = inflight'
        
        \* Format the `inflight` variable as Json value.
        \* ,_inflightJson |->
        \*     LET J == INSTANCE Json
        \*     IN J!ToJson(inflight)
        
        \* Lastly, you may build expressions over arbitrary sets of states by
        \* leveraging the _TETrace operator.  For example, this is how to
        \* count the number of times a spec variable changed up to the current
        \* state in the trace.
        \* ,_inflightModCount |->
        \*     LET F[s \in DOMAIN _TETrace] ==
        \*         IF s = 1 THEN 0
        \*         ELSE IF _TETrace[s].inflight # _TETrace[s-1].inflight
        \*             THEN 1 + F[s-1] ELSE F[s-1]
        \*     IN F[_TEPosition - 1]
    ]

=============================================================================



Parsing and semantic processing can take forever if the trace below is long.
 In this case, it is advised to uncomment the module below to deserialize the
 trace from a generated binary file.

\*
\*---- MODULE VmHeap_TETrace ----
\*EXTENDS VmHeap_TEConstants, VmHeap, IOUtils, TLC
\*
\*trace == IODeserialize("VmHeap_TTrace_1790130352.bin", TRUE)
\*
\*=============================================================================
\*

---- MODULE VmHeap_TETrace ----
EXTENDS VmHeap_TEConstants, VmHeap, TLC

trace == 
    <<
    ([stack |-> {},frames |-> {},upvals |-> {},globals |-> {},edges |-> {},live |-> {},inflight |-> {},guards |-> {}]),
    ([stack |-> {},frames |-> {},upvals |-> {},globals |-> {},edges |-> {},live |-> {o3},inflight |-> {},guards |-> {o3}]),
    ([stack |-> {},frames |-> {},upvals |-> {},globals |-> {},edges |-> {},live |-> {o1, o3},inflight |-> {},guards |-> {o1, o3}]),
    ([stack |-> {o1},frames |-> {},upvals |-> {},globals |-> {},edges |-> {},live |-> {o1, o3},inflight |-> {},guards |-> {o3}]),
    ([stack |-> {},frames |-> {},upvals |-> {},globals |-> {},edges |-> {},live |-> {o1, o3},inflight |-> {o1},guards |-> {o3}]),
    ([stack |-> {},frames |-> {},upvals |-> {},globals |-> {},edges |-> {},live |-> {o3},inflight |-> {o1},guards |-> {o3}])
    >>
----


=============================================================================

---- MODULE VmHeap_TEConstants ----
EXTENDS VmHeap

CONSTANTS o1, o2, o3

=============================================================================

---- CONFIG VmHeap_TTrace_1790130352 ----
CONSTANTS
    Objs = { o1 , o2 , o3 }
    RootSets = { "stack" , "globals" , "guards" }
    o1 = o1
    o3 = o3
    o2 = o2

INVARIANT
    _inv

CHECK_DEADLOCK
    \* CHECK_DEADLOCK off because of PROPERTY or INVARIANT above.
    FALSE

INIT
    _init

NEXT
    _next

CONSTANT
    _TETrace <- _trace

ALIAS
    _expression
=============================================================================
\* Generated on Wed Sep 23 02:25:53 UTC 2026