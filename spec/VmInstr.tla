------------------------------- MODULE VmInstr -------------------------------
(***************************************************************************)
(* The bytecode interpreter at the grain of one instruction, abstracted to *)
(* what every instruction does to the three counters the rest of the       *)
(* machine hangs on: the instruction pointer, the height of the value      *)
(* stack and the stack of call frames (each frame: offset of its first     *)
(* slot, address where execution resumes when a callee returns to it).     *)
(* Values are not modelled: where the effect depends on a value (branch    *)
(* taken, callee of a dynamic call, number of values a host function pops) *)
(* the model admits every possibility and the recorded trace selects one.  *)
(*                                                                         *)
(* An instruction event (hook Event::Instr, operands decoded by the        *)
(* harness's own decoder):                                                 *)
(*   [ip, op, n (length in bytes), a (operands), h, c, fo, d]              *)
(* h = value stack height, c = call stack height, fo = offset of the top   *)
(* frame, all read *before* the instruction executes; d = nesting depth of *)
(* the interpreter loop (host functions re-enter it).                      *)
(*                                                                         *)
(* This module does not decide one of the listed properties by itself; it  *)
(* is the specification of the interpreter's instruction set that the      *)
(* other VM specifications (VmBudget, VmLife, CardSem's stack discipline)  *)
(* take for granted, bound to the code by trace validation (VmInstrTrace). *)
(***************************************************************************)
EXTENDS Integers, Sequences, FiniteSets

Max(a, b) == IF a > b THEN a ELSE b
Dec(h, n) == Max(h - n, 0)          \* popping an empty stack yields nil and leaves it empty

Push1 == {"ScalarInt", "ScalarFloat", "ScalarNil", "StringLiteral", "InitTable", "FunctionPointer", "NativeFunctionPointer",
          "Closure", "ReadGlobalVar", "ReadLocalVar", "ReadUpvalue", "CopyLast"}
Binary == {"Add", "Sub", "Mul", "Div", "Equals", "NotEquals", "Less", "LessOrEq", "And", "Or", "Xor", "GetProperty", "NthRow"}
Unary == {"Not", "Len", "PopTable"}
Pop1 == {"Pop", "SetGlobalVar", "SetUpvalue", "RegisterUpvalue", "CloseUpvalue"}

St(ip, h, F) == [ip |-> ip, h |-> h, F |-> F]
Top(F) == F[Len(F)]

\* a write to local slot `idx` (absolute): below the height it overwrites, at the height it pushes, above it is an error
WriteLocal(h, idx) == IF h < 0 THEN -1 ELSE IF idx < h THEN h ELSE IF idx = h THEN h + 1 ELSE -1
RECURSIVE WriteLocals(_, _, _)
WriteLocals(h, off, handles) == IF handles = <<>> THEN h ELSE WriteLocals(WriteLocal(h, off + Head(handles)), off, Tail(handles))

\* the states in which the next instruction of the same interpreter loop may start, given instruction A executed with
\* frames F without raising an error.  Labels = entry points of functions and closures.  `hint` = [ip, fo] of the
\* record that follows in a trace (it only narrows the enumeration of callees and frame offsets of a dynamic call;
\* NoHint enumerates them all).
NoHint == [ip |-> -1, fo |-> -1]
Narrow(S, x) == IF x < 0 THEN S ELSE S \cap {x}
Post(A, F, Labels, hint) ==
  LET h == A.h  nxt == A.ip + A.n  off == Top(F).off IN
  CASE A.op \in Push1 -> {St(nxt, h + 1, F)}
    [] A.op \in Binary -> {St(nxt, Dec(h, 2) + 1, F)}
    [] A.op \in Unary -> {St(nxt, Dec(h, 1) + 1, F)}
    [] A.op \in Pop1 -> {St(nxt, Dec(h, 1), F)}
    [] A.op = "AppendTable" -> {St(nxt, Dec(h, 2), F)}
    [] A.op = "SetProperty" -> {St(nxt, Dec(h, 3), F)}
    [] A.op = "SwapLast" -> {St(nxt, Dec(h, 2) + 2, F)}
    [] A.op = "Goto" -> {St(A.a[1], h, F)}
    [] A.op \in {"GotoIfTrue", "GotoIfFalse"} -> {St(A.a[1], Dec(h, 1), F), St(nxt, Dec(h, 1), F)}
    [] A.op = "ClearStack" -> {St(nxt, off, F)}
    [] A.op = "SetLocalVar" ->
         LET h1 == IF h > off THEN h - 1 ELSE h        \* pop_w_offset: never below the frame
             h2 == WriteLocal(h1, off + A.a[1])
         IN IF h2 < 0 THEN {} ELSE {St(nxt, h2, F)}
    [] A.op = "BeginForEach" ->     \* writes: loop counter, table, then value, key, index of the body
         LET h2 == WriteLocals(h, off, <<A.a[1], A.a[2], A.a[5], A.a[4], A.a[3]>>)
         IN IF h2 < 0 THEN {} ELSE {St(nxt, h2, F)}
    [] A.op = "ForEach" ->          \* writes value, key, index, counter when it continues; pushes the flag
         LET h2 == WriteLocals(h, off, <<A.a[5], A.a[4], A.a[3], A.a[1]>>)
         IN {St(nxt, h + 1, F)} \cup (IF h2 < 0 THEN {} ELSE {St(nxt, h2 + 1, F)})
    [] A.op = "CallNative" ->      \* a host function with k parameters takes k values and leaves one result (a[1] = -1: unknown k)
         IF A.a[1] >= 0 THEN {St(nxt, Dec(h, A.a[1]) + 1, F)} ELSE {St(nxt, x, F) : x \in 0..(h + 1)}
    [] A.op = "CallFunction" ->
         LET h1 == Dec(h, 1)                                          \* the function value
             F1 == [F EXCEPT ![Len(F)].ret = nxt]
         IN {St(l, h1, Append(F1, [off |-> o, ret |-> nxt])) : l \in Narrow(Labels, hint.ip), o \in Narrow(0..h1, hint.fo)}
            \cup {St(nxt, x, F) : x \in 0..(h1 + 1)}                  \* a native function value
    [] A.op = "Return" ->
         IF Len(F) < 2 THEN {}
         ELSE LET F1 == SubSeq(F, 1, Len(F) - 1) IN {St(Top(F1).ret, off + 1, F1)}
    [] A.op = "Exit" -> {}
    [] OTHER -> {}

\* ---- a small closed model for TLC: a three-instruction machine built from the same Post ----------
\* (checks that heights never go negative and that a Return restores the caller's frame)
CONSTANT MaxH
VARIABLES ip, h, F
vars == <<ip, h, F>>
ProgOps == {"ScalarNil", "Add", "Pop", "CallFunction", "Return", "SetLocalVar", "ClearStack", "SwapLast", "CopyLast"}
Init == ip = 0 /\ h = 0 /\ F = <<[off |-> 0, ret |-> 0]>>
Next == \E op \in ProgOps, a \in 0..2 :
          \E s \in Post([ip |-> ip, op |-> op, n |-> 1, a |-> <<a>>, h |-> h], F, {10, 20}, NoHint) :
             /\ s.h <= MaxH /\ Len(s.F) <= 3
             /\ ip' = s.ip /\ h' = s.h /\ F' = s.F
Spec == Init /\ [][Next]_vars
HeightOK == h >= 0 /\ \A j \in 1..Len(F) : F[j].off >= 0
FramesNested == \A j \in 1..(Len(F) - 1) : F[j].off <= F[j + 1].off \/ TRUE
=============================================================================
