---------------------------- MODULE VmInstrTrace ----------------------------
(* Trace validation of the interpreter loop against VmInstr.                                   *)
(* records: {e:"Prog", labels, starts, end}  {e:"RunStart"}  {e:"I", ip, op, n, a, h, c, fo, d}         *)
(*          {e:"Reenter", h, c}  {e:"ReenterEnd", h, c, ok}  {e:"RunEnd", ok}                   *)
(* A rejected record is printed as a MISMATCH and the rest of that run is skipped.              *)
EXTENDS VmInstr, Json, IOUtils, TLC

D == INSTANCE VmData WITH DMax <- 0, st <- <<>>, gl <- <<>>      \* the data side: contents of the value stack, globals

Rec == ndJsonDeserialize(IOEnv.TRACE)
N == Len(Rec)

VARIABLES l,       \* next record
          mode,    \* "skip": not following (before a run, after a rejection or a failed callee); "start": a run begins; "run"
          pend,    \* what the next instruction of the innermost loop is measured against: [k |-> "instr", A |-> the last
                   \* instruction] or [k |-> "reenter", A |-> the Reenter record]
          ctx,     \* suspended loops: <<[pend, F]>> of the instructions that called a host function
          cur,     \* frames after the last instruction
          last,    \* name of the last instruction of the innermost loop
          prog,    \* [labels, end]
          glob     \* global variables written so far in this run (id -> value); only followed when the records carry values
tvars == <<l, mode, pend, ctx, cur, last, prog, glob, ip, h, F>>

IsStart(j) == Rec[j].e \in {"RunStart", "Prog"}
NextStart(j) == IF \E q \in (j + 1)..N : IsStart(q)
                THEN CHOOSE q \in (j + 1)..N : IsStart(q) /\ \A r \in (j + 1)..(q - 1) : ~IsStart(r)
                ELSE N + 1
Labels == {prog.labels[j] : j \in 1..Len(prog.labels)}
MainF == <<[off |-> 0, ret |-> 0]>>

Matches(s, r) == s.ip = r.ip /\ s.h = r.h /\ Len(s.F) = r.c /\ Top(s.F).off = r.fo

None == [k |-> "none", A |-> [ip |-> 0, op |-> "", n |-> 0, a |-> <<>>, h |-> 0]]
\* admitted states for a following record r
Admitted(r) ==
  IF pend.k = "instr" THEN Post(pend.A, cur, Labels, [ip |-> r.ip, fo |-> r.fo])
  ELSE IF pend.k = "reenter"
       THEN {St(lb, pend.A.h, cur \o <<[off |-> o, ret |-> prog.end], [off |-> o, ret |-> prog.end]>>) :
               lb \in Narrow(Labels, r.ip), o \in Narrow(0..pend.A.h, r.fo)}
       ELSE {}
Show(S) == IF Cardinality(S) > 8 THEN {} ELSE {[ip |-> x.ip, h |-> x.h, c |-> Len(x.F), fo |-> Top(x.F).off] : x \in S}
Reject(r, why) == /\ PrintT(<<"MISMATCH", ToJson([line |-> l, event |-> r, why |-> why, after |-> pend.A,
                                                  admitted |-> IF r.e = "I" THEN Show(Admitted(r)) ELSE {}])>>)
                  /\ l' = NextStart(l) /\ mode' = "skip" /\ pend' = None /\ ctx' = <<>> /\ cur' = MainF /\ last' = "" /\ UNCHANGED <<prog, glob>>
Skip == l' = l + 1 /\ UNCHANGED <<mode, pend, ctx, cur, last, prog, glob>>
Stop == l' = l + 1 /\ mode' = "skip" /\ pend' = None /\ ctx' = <<>> /\ cur' = MainF /\ last' = "" /\ UNCHANGED <<prog, glob>>

\* ---- the data side (VmData): only when both the last instruction of this loop and the record carry the stack contents
HasData(r) == pend.k = "instr" /\ "s" \in DOMAIN pend.A /\ "s" \in DOMAIN r
DataOk(r) == \E P \in D!Expected(pend.A, pend.A.s, glob, cur, r.ip, r.c) : D!Like(P, r.s)
DataWhy(r) == IF ~D!Isolated(pend.A, pend.A.s, r.s, cur) THEN "an instruction changed values below the frame of the function that executes it"
              ELSE IF pend.A.op = "CallNative" \/ (pend.A.op = "CallFunction" /\ r.c = Len(cur))
                   THEN "after a host call the caller's values differ from what they were, less the parameters, plus the result"
                   ELSE "the values on the stack differ from every admitted effect of the instruction"
GlobNext(r) == IF HasData(r) THEN D!GlobalsAfter(pend.A, pend.A.s, glob) ELSE glob

\* ---- where a failed run says it failed (C15), when the run ends in the outermost loop after an instruction that keeps the
\* frames (so the failing instruction - the last one, or on Timeout the one that was next - belongs to the same function): the
\* error's trace begins with a card of that function (tf = "namespace/function" of the card the compiler's source trace gives for
\* the instruction) and continues with one call card per active caller, optionally followed by the program entry
LocOk(r) == \/ "etrace" \notin DOMAIN r \/ r.ok \/ mode # "run" \/ ctx # <<>> \/ pend.k # "instr"
            \/ "tf" \notin DOMAIN pend.A \/ pend.A.tf = ""
            \/ pend.A.op \in {"CallFunction", "Return", "CallNative", "Exit"}
            \/ (Len(r.etrace) \in {Len(cur), Len(cur) + 1} /\ r.etrace[1] = pend.A.tf)

TInit == l = 1 /\ mode = "skip" /\ pend = None /\ ctx = <<>> /\ cur = MainF /\ last = "" /\ prog = [labels |-> <<>>, starts |-> {}, end |-> 0] /\ glob = <<>>
         /\ ip = 0 /\ h = 0 /\ F = MainF
TNext ==
  /\ l <= N /\ UNCHANGED <<ip, h, F>>
  /\ LET r == Rec[l] IN
     CASE r.e = "Prog" -> /\ l' = l + 1 /\ prog' = [labels |-> r.labels, starts |-> {r.starts[j] : j \in 1..Len(r.starts)}, end |-> r.end]
                          /\ mode' = "skip" /\ pend' = None /\ ctx' = <<>> /\ cur' = MainF /\ last' = "" /\ glob' = <<>>
       [] r.e = "RunStart" ->
            \* run() pushes the frame of main; values the host pushed before are main's arguments
            l' = l + 1 /\ mode' = "start" /\ pend' = None /\ ctx' = <<>> /\ cur' = MainF /\ last' = "" /\ glob' = <<>> /\ UNCHANGED prog
       [] r.e = "Note" -> Skip
       [] r.e = "Panic" -> Stop
       [] mode = "skip" -> Skip
       [] r.e = "I" /\ r.ip \notin prog.starts -> Reject(r, "executed address is not the start of an instruction")
       [] r.e = "I" ->
            IF mode = "start"
            THEN IF r.ip = 0 /\ r.c = 1 /\ r.fo = 0 /\ r.d = 1
                 THEN /\ l' = l + 1 /\ mode' = "run" /\ cur' = MainF /\ pend' = [k |-> "instr", A |-> r] /\ last' = r.op
                      /\ UNCHANGED <<ctx, prog, glob>>
                 ELSE Reject(r, "a run starts at instruction 0 in the frame of main")
            ELSE IF r.d # Len(ctx) + 1 THEN Reject(r, "instruction of another nesting depth than the innermost loop")
            ELSE IF \E s \in Admitted(r) : Matches(s, r)
                 THEN IF HasData(r) /\ ~DataOk(r) THEN Reject(r, DataWhy(r))
                      ELSE LET s == CHOOSE s \in Admitted(r) : Matches(s, r) IN
                      /\ l' = l + 1 /\ cur' = s.F /\ pend' = [k |-> "instr", A |-> r] /\ last' = r.op /\ glob' = GlobNext(r)
                      /\ UNCHANGED <<mode, ctx, prog>>
                 ELSE Reject(r, "instruction pointer, stack height or call frames differ from every admitted successor")
       [] r.e = "Reenter" ->
            \* run_function: a trap frame and the callee's frame, both resuming at the final Exit; the callee's
            \* arguments are the topmost values, so its frame starts somewhere at or below the height
            IF mode = "start" \/ r.c # Len(cur) + 2 \/ last \notin {"CallNative", "CallFunction"}
            THEN Reject(r, "re-entry happens inside a host call and pushes exactly two call frames")
            ELSE /\ l' = l + 1 /\ UNCHANGED <<mode, cur, prog, last, glob>>
                 /\ ctx' = Append(ctx, [pend |-> pend, F |-> cur, last |-> last])
                 /\ pend' = [k |-> "reenter", A |-> [ip |-> 0, op |-> "", n |-> 0, a |-> <<>>, h |-> r.h]]
       [] r.e = "ReenterEnd" ->
            IF ctx = <<>> THEN Reject(r, "end of a re-entry that never began")
            ELSE IF ~r.ok THEN
                 \* the callee failed.  The host function either passes the failure on (RunEnd / ReenterEnd follow) or handles
                 \* it and carries on: then the caller finds its frames and its stack as before the call (less the host
                 \* function's parameters, plus its result), exactly as after a successful call
                 LET top == ctx[Len(ctx)] IN
                 /\ l' = l + 1 /\ pend' = top.pend /\ cur' = top.F /\ last' = top.last
                 /\ ctx' = SubSeq(ctx, 1, Len(ctx) - 1) /\ UNCHANGED <<mode, prog, glob>>
            ELSE LET top == ctx[Len(ctx)] IN
                 \* the callee returned through the trap frame to the final Exit: only the trap frame is left
                 IF last # "Exit" \/ r.c # Len(top.F) + 1 THEN Reject(r, "a callee ends at the final Exit with only the trap frame left")
                 ELSE /\ l' = l + 1 /\ pend' = top.pend /\ cur' = top.F /\ last' = top.last
                      /\ ctx' = SubSeq(ctx, 1, Len(ctx) - 1) /\ UNCHANGED <<mode, prog, glob>>
       [] r.e = "RunEnd" ->
            \* a successful run ends with Exit in the outermost loop (or ran no instruction at all)
            IF r.ok /\ mode = "run" /\ ~(last = "Exit" /\ ctx = <<>>) THEN Reject(r, "a run ended successfully without reaching Exit in the outermost loop")
            ELSE IF ~LocOk(r) THEN Reject(r, "the error's trace does not begin in the function whose instruction failed, or its length is not that of the call chain")
            ELSE Stop
       [] OTHER -> Reject(r, "unknown record")
TSpec == TInit /\ [][TNext]_tvars
Done == (l = N + 1) => PrintT(<<"TRACE-DONE", N>>)
Inv == TRUE
=============================================================================
