-------------------------------- MODULE VmLife --------------------------------
(***************************************************************************)
(* Life cycle of a VM: runs and clears (property C17).                     *)
(*                                                                         *)
(* The residue of a VM is what a run leaves behind and the next run finds: *)
(*   [stack, calls, globals, objects, upvals, allocated, next_gc, live]    *)
(* (heights of the value stack and the call stack, number of global slots, *)
(* live objects, open upvalues, accounted bytes, collection threshold).    *)
(* An outcome is the digest of a run's observation (globals, host calls,   *)
(* success / error kind).                                                  *)
(*                                                                         *)
(*   Clear                    the residue becomes that of a new VM         *)
(*   Run(p, out, res, fout, fres)                                          *)
(*        program p was run here with outcome `out` leaving residue `res`; *)
(*        `fout` / `fres` are outcome and residue of the same program on a *)
(*        newly created VM with the same configuration                     *)
(***************************************************************************)
EXTENDS Naturals, Sequences, FiniteSets

CONSTANT Progs

VARIABLE st     \* [clean: the VM is new or was just cleared, seen: program -> [stack, calls] after its last run]

Fresh(r) == r.stack = 0 /\ r.calls = 0 /\ r.globals = 0 /\ r.objects = 0 /\ r.upvals = 0 /\ r.allocated = 0
NoSeen == [p \in {} |-> 0]
NoLast == [p |-> "", out |-> "", live |-> 0]
New == [clean |-> TRUE, seen |-> NoSeen, last |-> NoLast]

\* clearing gives the residue of a new VM, including the collection threshold
Clear(s, res, newres) == IF Fresh(res) /\ res.next_gc = newres.next_gc THEN {[s EXCEPT !.clean = TRUE, !.seen = NoSeen, !.last = NoLast]} ELSE {}
Run(s, p, out, res, fout, fres) ==
  IF \* on a clean VM: the outcome, the resource consumption and the accounted memory of a newly created VM
     /\ s.clean => (out = fout /\ res = fres)
     \* repeating the same run gives the same outcome every time
     /\ s.last.p = p => out = s.last.out
     \* ... and does not eat memory: once the VM has settled after the run (the host released what it created, a
     \* collection ran) no more bytes are accounted for than after the previous run of the same program
     /\ s.last.p = p => res.live <= s.last.live
     \* repeating a run does not use up stack or call-stack space
     /\ p \in DOMAIN s.seen => (res.stack <= s.seen[p].stack /\ res.calls <= s.seen[p].calls)
  THEN {[s EXCEPT !.clean = FALSE, !.last = [p |-> p, out |-> out, live |-> res.live],
                  !.seen = [q \in (DOMAIN s.seen) \cup {p} |-> IF q = p THEN [stack |-> res.stack, calls |-> res.calls] ELSE s.seen[q]]]}
  ELSE {}

\* a closure outlives the run that created it: called in a later run it still finds the last values of the variables it
\* captured (here: locals of `main` of the earlier run), and the later run's own locals are untouched (C06)
Persist(s, made, ok, got, want, cgot, cwant) == IF made /\ ok /\ got = want /\ cgot = cwant THEN {s} ELSE {}

\* model-checking configuration: abstract residues
Res(a, b) == [stack |-> a, calls |-> b, globals |-> 0, objects |-> 0, upvals |-> 0, allocated |-> 0, next_gc |-> 100, live |-> 0]
Init == st = New
Next == \/ st' \in Clear(st, Res(0, 0), Res(0, 0))
        \/ \E p \in Progs, a \in 0..2, b \in 0..1 : st' \in Run(st, p, "o", Res(a, b), "o", Res(a, b))
Spec == Init /\ [][Next]_st
TypeOK == st.clean \in BOOLEAN
\* a VM on which the same program keeps running never needs more stack than the first time
NoGrowth == [][\A p \in DOMAIN st.seen : p \in DOMAIN st'.seen => st'.seen[p].stack <= st.seen[p].stack]_st
=============================================================================
