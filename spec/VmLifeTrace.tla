----------------------------- MODULE VmLifeTrace -----------------------------
(* Trace validation for C17: histories of runs and clears on one VM, each run  *)
(* paired with the same run on a newly created VM.                             *)
EXTENDS VmLife, Json, IOUtils, TLC
Rec == ndJsonDeserialize(IOEnv.TRACE)
N == Len(Rec)
VARIABLE l
tvars == <<st, l>>
IsReset(j) == Rec[j].e = "Reset"
NextReset(j) == IF \E q \in (j + 1)..N : IsReset(q)
                THEN CHOOSE q \in (j + 1)..N : IsReset(q) /\ \A r \in (j + 1)..(q - 1) : ~IsReset(r)
                ELSE N + 1
Succ(r) ==
  CASE r.e = "Clear" -> Clear(st, r.res, r.newres)
    [] r.e = "Run" -> Run(st, r.p, r.out, r.res, r.fout, r.fres)
    [] r.e = "Persist" -> Persist(st, r.made, r.ok, ToJson(r.got), ToJson(r.want), ToJson(r.caller_got), ToJson(r.caller_want))
    [] r.e = "Note" -> {st}
    [] OTHER -> {}
TInit == l = 1 /\ st = New
TNext ==
  /\ l <= N
  /\ LET r == Rec[l] IN
       IF IsReset(l) THEN st' = New /\ l' = l + 1
       ELSE IF Succ(r) # {} THEN st' \in Succ(r) /\ l' = l + 1
       ELSE /\ PrintT(<<"MISMATCH", ToJson([line |-> l, event |-> r, state |-> st])>>)
            /\ l' = NextReset(l) /\ st' = st
TSpec == TInit /\ [][TNext]_tvars
Done == (l = N + 1) => PrintT(<<"TRACE-DONE", N>>)
Inv == TypeOK
=============================================================================
