-------------------------------- MODULE VmTotal --------------------------------
(***************************************************************************)
(* Totality of compiling and running (property C04).                       *)
(*                                                                         *)
(* For every input the front-end accepts, the life of one program is       *)
(*     start --Compile(ok)--> compiled --Run(ok | err kind)--> done        *)
(*     start --Compile(err kind)--> done                                   *)
(* Every state other than `done` has a successor (checked by TLC with      *)
(* deadlock checking ON; `done` stutters), and these are the only events:  *)
(* a panic, a process abort, a native stack overflow or a run that makes   *)
(* no progress are not events of the specification, so a recorded history  *)
(* containing one is rejected.  For hostile program families whose         *)
(* resource behaviour is determined the error kind is specified too.       *)
(***************************************************************************)
EXTENDS Naturals, Sequences, FiniteSets

CompileErrs == {"NoMain", "EmptyProgram", "TooManyCards", "DuplicateName", "DuplicateModule", "MissingSubProgram", "InvalidJump",
                "InternalError", "TooManyLocals", "TooManyUpvalues", "BadVariableName", "EmptyVariable", "BadFunctionName",
                "RecursionLimitReached", "BadImport", "AmbigousImport", "SuperLimitReached", "Unimplemented"}
RunErrs == {"CallStackOverflow", "UnexpectedEndOfInput", "ExitCode", "InvalidInstruction", "InvalidArgument", "VarNotFound",
            "ProcedureNotFound", "Unimplemented", "OutOfMemory", "MissingArgument", "Timeout", "TaskFailure", "Stackoverflow",
            "BadReturn", "Unhashable", "AssertionError", "InvalidUpvalue", "NotClosure"}

Families == {"any", "compile-only", "call-depth", "value-stack", "memory", "budget", "non-function-call", "wrong-type",
             "int-overflow", "too-many-locals", "missing-native", "deep-nesting", "cyclic-table", "many-globals", "names", "long-strings", "missing-operands", "foreach-at-stack-limit"}

\* what a family admits: [compile |-> set of compile results, run |-> set of run results]
\* results are "ok" or an error kind
Admits(fam) ==
  CASE fam = "call-depth" -> [compile |-> {"ok"}, run |-> {"CallStackOverflow", "Stackoverflow"}]
    [] fam = "value-stack" -> [compile |-> {"ok"}, run |-> {"Stackoverflow"}]
    [] fam = "memory" -> [compile |-> {"ok"}, run |-> {"OutOfMemory"}]
    [] fam = "budget" -> [compile |-> {"ok"}, run |-> {"Timeout"}]
    [] fam = "non-function-call" -> [compile |-> {"ok"}, run |-> {"InvalidArgument"}]
    [] fam = "wrong-type" -> [compile |-> {"ok"}, run |-> {"ok"} \cup RunErrs]
    [] fam = "int-overflow" -> [compile |-> {"ok"}, run |-> {"ok"}]
    [] fam = "too-many-locals" -> [compile |-> {"TooManyLocals"}, run |-> {}]
    [] fam = "missing-native" -> [compile |-> {"ok"}, run |-> {"ProcedureNotFound"}]
    [] fam = "foreach-at-stack-limit" -> [compile |-> {"ok"}, run |-> {"ok", "Stackoverflow", "CallStackOverflow"}]
    [] fam = "compile-only" -> [compile |-> {"ok"} \cup CompileErrs, run |-> {}]
    [] OTHER -> [compile |-> {"ok"} \cup CompileErrs, run |-> {"ok"} \cup RunErrs]

VARIABLE st     \* [fam, phase]
New(f) == [fam |-> f, phase |-> "start"]
Compile(s, res) == IF s.phase = "start" /\ res \in Admits(s.fam).compile
                   THEN {[s EXCEPT !.phase = IF res = "ok" /\ Admits(s.fam).run # {} THEN "compiled" ELSE "done"]} ELSE {}
Run(s, res) == IF s.phase = "compiled" /\ res \in Admits(s.fam).run THEN {[s EXCEPT !.phase = "done"]} ELSE {}

Init == st \in {New(f) : f \in Families}
Next == \/ \E res \in {"ok"} \cup CompileErrs : st' \in Compile(st, res)
        \/ \E res \in {"ok"} \cup RunErrs : st' \in Run(st, res)
        \/ (st.phase = "done" /\ UNCHANGED st)
Spec == Init /\ [][Next]_st /\ WF_st(Next)
\* every program reaches `done`: compiling and running are total
Terminates == <>(st.phase = "done")
TypeOK == st.phase \in {"start", "compiled", "done"}
=============================================================================
