----------------------------- MODULE VmTotalTrace -----------------------------
(* Trace validation for C04: {e:"Reset", fam} {e:"Compile", res} {e:"Run", res}  *)
(* plus whatever the crash-isolated driver recorded instead (Panic/abort/hang).  *)
EXTENDS VmTotal, Json, IOUtils, TLC
Rec == ndJsonDeserialize(IOEnv.TRACE)
N == Len(Rec)
VARIABLE l
tvars == <<st, l>>
IsReset(j) == Rec[j].e = "Reset"
NextReset(j) == IF \E q \in (j + 1)..N : IsReset(q)
                THEN CHOOSE q \in (j + 1)..N : IsReset(q) /\ \A r \in (j + 1)..(q - 1) : ~IsReset(r)
                ELSE N + 1
Succ(r) == CASE r.e = "Compile" -> Compile(st, r.res) [] r.e = "Run" -> Run(st, r.res) [] OTHER -> {}
\* a case must not stop half way: the record before the next Reset has to leave the program `done`
Complete(j) == (j = N \/ IsReset(j + 1)) => \A s \in Succ(Rec[j]) : s.phase = "done"
TInit == l = 1 /\ st = New("any")
TNext ==
  /\ l <= N
  /\ LET r == Rec[l] IN
       IF IsReset(l) THEN st' = New(r.fam) /\ l' = l + 1
       ELSE IF Succ(r) # {} /\ Complete(l) THEN st' \in Succ(r) /\ l' = l + 1
       ELSE /\ PrintT(<<"MISMATCH", ToJson([line |-> l, event |-> r, state |-> st])>>)
            /\ l' = NextReset(l) /\ st' = st
TSpec == TInit /\ [][TNext]_tvars
Done == (l = N + 1) => PrintT(<<"TRACE-DONE", N>>)
Inv == TypeOK
=============================================================================
