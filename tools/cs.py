#!/usr/bin/env python3
"""dev tool: tools/cs.py profile seed n  -> generate, run, validate, print mismatch summaries"""
import sys, os
sys.path.insert(0, "/verif/checks"); sys.path.insert(0, "/verif/lib")
from cardsem import *
import pp
prof, seed, n = sys.argv[1], int(sys.argv[2]), int(sys.argv[3])
build_harness()
run = Run("DEV", "quick", seed)
d = workdir("dev-" + prof)
f = os.path.join(d, "all.ndjson")
drive_programs(prof, seed, n, f)
files = split_file(f, 12, d, prof)
mism, stats = validate_programs(run, files, "dev-" + prof)
print(stats)
for rec, m in mism[:int(os.environ.get("SHOW", "5"))]:
    print("=" * 30, rec["id"], rec["profile"], sorted(features(rec["prog"])))
    for l in diff_summary(m): print("   ", l)
    if os.environ.get("PP"): pp.show(dict(rec, obs={}))
    json.dump(rec, open(os.path.join(d, "mm_%s.json" % rec["id"]), "w"))
print(len(mism), "mismatches")
