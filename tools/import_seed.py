#!/usr/bin/env python3
"""tools/import_seed.py <PROPERTY> <slug> <checks,comma> <breaks> <needs> : copy /tmp/seed/<PROPERTY>/seeded into /verif/seeded/<PROPERTY>-<slug>"""
import sys, os, shutil, json
pid, slug, checks, breaks, needs = sys.argv[1:6]
src = "/tmp/seed/%s/seeded" % pid
dst = "/verif/seeded/%s-%s" % (pid, slug)
os.makedirs(dst, exist_ok=True)
for f in ("patch.diff", "seeded_demo.rs", "notes.md"):
    shutil.copy(os.path.join(src, f), os.path.join(dst, f))
json.dump({"property": pid, "checks": checks.split(","), "source": "sub-agent seed-%s (given only the property text and a scratch worktree)" % pid,
           "breaks": breaks, "needs": needs}, open(os.path.join(dst, "meta.json"), "w"), indent=1)
print(dst, os.listdir(dst))
