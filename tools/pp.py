#!/usr/bin/env python3
"""pretty-print card programs of an ndjson corpus: pp.py file id"""
import json, sys
sys.path.insert(0, "/verif/tools")
def e(c):
    k=c['k']; ch=c['c']; nm=[n['s'] for n in c.get('nm',[])]
    if k=='ScalarInt': return str(c['i'])
    if k=='ScalarFloat': return c['s'] or "%s/2^%s"%(c['i'],c['e'])
    if k=='StringLiteral': return json.dumps(c['s'])
    if k=='ScalarNil': return 'nil'
    if k=='CreateTable': return '{}'
    if k=='ReadVar': return '.'.join(nm)
    if k in ('SetVar','SetGlobalVar'): return "%s%s := %s"%('$' if k=='SetGlobalVar' else '', '.'.join(nm), e(ch[0]))
    if k=='Function': return '&'+c['s']
    if k=='NativeFunction': return '&native:'+c['s']
    if k in ('Call','CallNative'): return "%s%s(%s)"%('native:' if k=='CallNative' else '', c['s'], ', '.join(map(e,ch)))
    if k=='DynamicCall': return "(%s)(%s)"%(e(ch[0]), ', '.join(map(e,ch[1:])))
    if k=='Closure': return "fn(%s){ %s }"%(','.join(nm), '; '.join(map(e,ch)))
    if k=='CompositeCard': return "{ %s }"%('; '.join(map(e,ch)))
    if k=='Repeat': return "repeat %s as %s %s"%(e(ch[0]), nm[0] or '_', e(ch[1]))
    if k=='ForEach': return "foreach (i=%s,k=%s,v=%s) in %s %s"%(nm[0] or '_',nm[1] or '_',nm[2] or '_', e(ch[0]), e(ch[1]))
    if k=='While': return "while %s %s"%(e(ch[0]), e(ch[1]))
    if k=='Array': return "[%s]"%(', '.join(map(e,ch)))
    return "%s(%s)"%(k, ', '.join(map(e,ch)))
def show(r):
    p=r['prog']
    for f in p['fns']:
        print("fn %s(%s):"%(f['name'], ', '.join(f['params'])))
        for i,c in enumerate(f['body']): print("  [%d] %s"%(i,e(c)))
    print("obs:", json.dumps(r.get('obs'))[:1500])
if __name__=='__main__':
    want=int(sys.argv[2])
    for l in open(sys.argv[1]):
        r=json.loads(l)
        if r['id']==want: show(r)
