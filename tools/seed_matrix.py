#!/usr/bin/env python3
"""tools/seed_matrix.py : markdown table of seeded/*/meta.json (what each change breaks, which checks were run, outcome)"""
import json, glob, os
rows = []
for d in sorted(glob.glob("/verif/seeded/*")):
    m = json.load(open(os.path.join(d, "meta.json")))
    res = m.get("result", {})
    ver = res.get("verification", {})
    ok = all(ver.get(k) for k in ("patch_applies", "suite_passes_with_change", "demo_fails_with_change", "demo_passes_without_change")) if ver else None
    checks = res.get("checks", {})
    out = []
    for c, r in checks.items():
        what = "reported" if r.get("detected") else ("tool error" if r.get("rc") == 2 else "not reported")
        kinds = sorted({l.split("kind=")[1].split(" ")[0] for l in r.get("lines", []) if "kind=" in l})
        out.append("%s: %s%s" % (c, what, (" (" + ", ".join(kinds) + ")") if kinds else ""))
    rows.append("| %s | %s; needs: %s | %s | %s |" % (os.path.basename(d), m.get("breaks", ""), m.get("needs", ""),
                                                    "yes" if ok else ("?" if ok is None else "NO"), "; ".join(out)))
print("| change | what it breaks | confirmed | quick-tier result (last run) |\n|---|---|---|---|")
print("\n".join(rows))
